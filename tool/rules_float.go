package main

import (
	"fmt"
	"go/ast"
	"go/constant"
	"go/parser"
	"go/token"
	"go/types"
	"math/big"
	"os"
	"os/exec"
	"path/filepath"
	"strings"
)

func init() {
	reg("C18.ryu", ruleRyuSibling)
	reg("C18.tab", rulePow10Table)
	reg("C18.fmt", ruleAppendFloatF)

	regWitness(
		Witness{Rule: "C18.ryu", Name: "mantbits-53", File: "ftoaryu.go", After: "func computeBounds(", Old: "const mantbits = 52", New: "const mantbits = 53", Breaks: "2^64 marshals as 18446744073709550000"},
		Witness{Rule: "C18.ryu", Name: "tie-case-dropped", File: "ftoaryu.go", Old: "fracc > 1<<(extra-1) ||\n\t\t(fracc == 1<<(extra-1) && !c0) ||\n\t\t(fracc == 1<<(extra-1) && c0 && dc&1 == 1)", New: "fracc > 1<<(extra-1) ||\n\t\t(fracc == 1<<(extra-1) && !c0)", Breaks: "exact halfway cases misround"},
		Witness{Rule: "C18.ryu", Name: "parity-on-scaled-mantissa", File: "ftoaryu.go", Old: "if dl0 && fracl == 0 && (mant&1) == 0 {", New: "if dl0 && fracl == 0 && (mc&1) == 0 {", Breaks: "18014398509482012 prints as 18014398509482010"},
		Witness{Rule: "C18.tab", Name: "one-bit-in-table", File: "ftoaryu.go", Old: "{0x0000000000000000, 0x8000000000000000}, // 1e0", New: "{0x0000000000000001, 0x8000000000000000}, // 1e0", Breaks: "some doubles print one digit off"},
		Witness{Rule: "C18.fmt", Name: "denormal-not-adjusted", File: "appendfloat_f.go", Old: "\tcase 0:\n\t\t// denormalized\n\t\texp++\n", New: "\tcase 0:\n\t\t// denormalized\n", Breaks: "subnormals print at half their value"},
		Witness{Rule: "C18.fmt", Name: "precision-clamped-wrong", File: "appendfloat_f.go", Old: "prec = max(digs.nd-digs.dp, 0)", New: "prec = max(digs.nd-digs.dp, 1)", Breaks: "integers print as 5.0"},
	)
}

func goroot() string {
	if g := os.Getenv("GOROOT"); g != "" {
		if _, err := os.Stat(filepath.Join(g, "src", "strconv", "ftoaryu.go")); err == nil {
			return g
		}
	}
	out, err := exec.Command("go", "env", "GOROOT").Output()
	if err != nil {
		return ""
	}
	return strings.TrimSpace(string(out))
}

// ---- canonical printer -----------------------------------------------------------------------

type canon struct {
	names  map[string]string // local name -> vN
	n      int
	consts map[*ast.Ident]string // identifiers to be printed as literals (repo side: local constants)
	dropId string                // identifier dropped from parameter/argument lists (reference side: flt)
	selSub map[string]string     // "flt.mantbits" -> "52"
	locals map[string]bool
}

func (c *canon) id(name string) string {
	if !c.locals[name] {
		return name
	}
	if v, ok := c.names[name]; ok {
		return v
	}
	c.n++
	v := fmt.Sprintf("v%d", c.n)
	c.names[name] = v
	return v
}

func litCanon(l *ast.BasicLit) string {
	switch l.Kind {
	case token.INT, token.FLOAT, token.CHAR:
		v := constant.MakeFromLiteral(l.Value, l.Kind, 0)
		if v.Kind() != constant.Unknown {
			return v.ExactString()
		}
	}
	return l.Value
}

func (c *canon) expr(e ast.Expr) string {
	switch x := e.(type) {
	case nil:
		return ""
	case *ast.Ident:
		if s, ok := c.consts[x]; ok {
			return s
		}
		return c.id(x.Name)
	case *ast.BasicLit:
		return litCanon(x)
	case *ast.ParenExpr:
		return c.expr(x.X)
	case *ast.BinaryExpr:
		return "(" + c.expr(x.X) + x.Op.String() + c.expr(x.Y) + ")"
	case *ast.UnaryExpr:
		return x.Op.String() + c.expr(x.X)
	case *ast.StarExpr:
		return "*" + c.expr(x.X)
	case *ast.SelectorExpr:
		full := c.rawSel(x)
		if s, ok := c.selSub[full]; ok {
			return s
		}
		return c.expr(x.X) + "." + x.Sel.Name
	case *ast.IndexExpr:
		return c.expr(x.X) + "[" + c.expr(x.Index) + "]"
	case *ast.SliceExpr:
		return c.expr(x.X) + "[" + c.expr(x.Low) + ":" + c.expr(x.High) + ":" + c.expr(x.Max) + "]"
	case *ast.CallExpr:
		var as []string
		for _, a := range x.Args {
			if id, ok := a.(*ast.Ident); ok && id.Name == c.dropId && c.dropId != "" {
				continue
			}
			as = append(as, c.expr(a))
		}
		return c.expr(x.Fun) + "(" + strings.Join(as, ",") + ")"
	case *ast.CompositeLit:
		var es []string
		for _, el := range x.Elts {
			es = append(es, c.expr(el))
		}
		return c.expr(x.Type) + "{" + strings.Join(es, ",") + "}"
	case *ast.KeyValueExpr:
		return c.expr(x.Key) + ":" + c.expr(x.Value)
	case *ast.ArrayType:
		return "[" + c.expr(x.Len) + "]" + c.expr(x.Elt)
	case *ast.Ellipsis:
		return "..."
	case *ast.FuncLit:
		return "func" + c.block(x.Body)
	}
	return fmt.Sprintf("<%T>", e)
}

func (c *canon) rawSel(x *ast.SelectorExpr) string {
	if id, ok := x.X.(*ast.Ident); ok {
		return id.Name + "." + x.Sel.Name
	}
	return ""
}

func (c *canon) block(b *ast.BlockStmt) string {
	if b == nil {
		return "{}"
	}
	return "{" + strings.Join(c.stmts(b.List), ";") + "}"
}

func (c *canon) stmts(list []ast.Stmt) []string {
	var out []string
	for _, s := range list {
		out = append(out, c.stmt(s)...)
	}
	return out
}

func (c *canon) isFloat32Test(e ast.Expr) bool {
	be, ok := e.(*ast.BinaryExpr)
	if !ok || be.Op != token.EQL {
		return false
	}
	id, ok := be.X.(*ast.Ident)
	if !ok || id.Name != c.dropId || c.dropId == "" {
		return false
	}
	u, ok := be.Y.(*ast.UnaryExpr)
	if !ok || u.Op != token.AND {
		return false
	}
	t, ok := u.X.(*ast.Ident)
	return ok && t.Name == "float32info"
}

func (c *canon) stmt(s ast.Stmt) []string {
	switch x := s.(type) {
	case nil:
		return nil
	case *ast.BlockStmt:
		return c.stmts(x.List) // bare blocks are flattened
	case *ast.ExprStmt:
		return []string{c.expr(x.X)}
	case *ast.AssignStmt:
		var l, r []string
		// evaluate the right-hand side first so that first-use numbering follows data flow consistently on both sides
		for _, e := range x.Rhs {
			r = append(r, c.expr(e))
		}
		for _, e := range x.Lhs {
			l = append(l, c.expr(e))
		}
		tok := x.Tok.String()
		if tok == ":=" {
			tok = "="
		}
		// x += 1 and x++ are one statement
		if (tok == "+=" || tok == "-=") && len(r) == 1 && r[0] == "1" && len(l) == 1 {
			return []string{l[0] + tok[:1] + tok[:1]}
		}
		return []string{strings.Join(l, ",") + tok + strings.Join(r, ",")}
	case *ast.IncDecStmt:
		return []string{c.expr(x.X) + x.Tok.String()}
	case *ast.ReturnStmt:
		var r []string
		for _, e := range x.Results {
			r = append(r, c.expr(e))
		}
		return []string{"return " + strings.Join(r, ",")}
	case *ast.BranchStmt:
		if x.Label != nil {
			return []string{x.Tok.String() + " " + x.Label.Name}
		}
		return []string{x.Tok.String()}
	case *ast.LabeledStmt:
		return append([]string{x.Label.Name + ":"}, c.stmt(x.Stmt)...)
	case *ast.IfStmt:
		if c.isFloat32Test(x.Cond) {
			// declared specialisation: float64 only → the else branch
			if x.Else == nil {
				return nil
			}
			return c.stmt(x.Else)
		}
		var pre []string
		if x.Init != nil {
			pre = c.stmt(x.Init)
		}
		s := "if " + strings.Join(pre, ";") + ";" + c.expr(x.Cond) + c.block(x.Body)
		if x.Else != nil {
			// `if c { …; return } else { rest }` and `if c { …; return }; rest` are one program
			if eb, isBlk := x.Else.(*ast.BlockStmt); isBlk && x.Init == nil && len(x.Body.List) > 0 {
				switch x.Body.List[len(x.Body.List)-1].(type) {
				case *ast.ReturnStmt, *ast.BranchStmt:
					return append([]string{s}, c.stmts(eb.List)...)
				}
			}
			s += "else{" + strings.Join(c.stmt(x.Else), ";") + "}"
		}
		return []string{s}
	case *ast.ForStmt:
		return []string{"for " + strings.Join(c.stmt(x.Init), ";") + ";" + c.expr(x.Cond) + ";" + strings.Join(c.stmt(x.Post), ";") + c.block(x.Body)}
	case *ast.RangeStmt:
		return []string{"range " + c.expr(x.Key) + "," + c.expr(x.Value) + "=" + c.expr(x.X) + c.block(x.Body)}
	case *ast.SwitchStmt:
		s := "switch " + strings.Join(c.stmt(x.Init), ";") + ";" + c.expr(x.Tag) + "{"
		for _, cl := range x.Body.List {
			cc := cl.(*ast.CaseClause)
			var vs []string
			for _, e := range cc.List {
				vs = append(vs, c.expr(e))
			}
			s += "case " + strings.Join(vs, ",") + ":" + strings.Join(c.stmts(cc.Body), ";") + ";"
		}
		return []string{s + "}"}
	case *ast.DeclStmt:
		gd, ok := x.Decl.(*ast.GenDecl)
		if !ok {
			return []string{"decl"}
		}
		var out []string
		for _, sp := range gd.Specs {
			vs, ok := sp.(*ast.ValueSpec)
			if !ok {
				continue
			}
			if gd.Tok == token.CONST {
				// local constants are substituted at their uses
				allSub := true
				for _, n := range vs.Names {
					if !c.locals["const:"+n.Name] {
						allSub = false
					}
				}
				if allSub {
					continue
				}
			}
			var ns, vals []string
			for _, n := range vs.Names {
				ns = append(ns, c.id(n.Name))
			}
			for _, v := range vs.Values {
				vals = append(vals, c.expr(v))
			}
			out = append(out, gd.Tok.String()+" "+strings.Join(ns, ",")+" "+c.expr(vs.Type)+"="+strings.Join(vals, ","))
		}
		return out
	case *ast.EmptyStmt:
		return nil
	}
	return []string{fmt.Sprintf("<%T>", s)}
}

// canonFunc renders a function as a list of canonical top-level statements.
func canonFunc(fd *ast.FuncDecl, info *types.Info, reference bool) []string {
	c := &canon{names: map[string]string{}, consts: map[*ast.Ident]string{}, selSub: map[string]string{}, locals: map[string]bool{}}
	if reference {
		c.dropId = "flt"
		c.selSub["flt.mantbits"] = "52"
		c.selSub["flt.expbits"] = "11"
		c.selSub["flt.bias"] = "-1023"
	}
	// locals: parameters, results, and every identifier declared inside the body
	addField := func(fl *ast.FieldList) {
		if fl == nil {
			return
		}
		for _, f := range fl.List {
			for _, n := range f.Names {
				if n.Name != c.dropId {
					c.locals[n.Name] = true
				}
			}
		}
	}
	addField(fd.Type.Params)
	addField(fd.Type.Results)
	ast.Inspect(fd.Body, func(n ast.Node) bool {
		switch x := n.(type) {
		case *ast.AssignStmt:
			if x.Tok == token.DEFINE {
				for _, l := range x.Lhs {
					if id, ok := l.(*ast.Ident); ok {
						c.locals[id.Name] = true
					}
				}
			}
		case *ast.ValueSpec:
			for _, nm := range x.Names {
				c.locals[nm.Name] = true
			}
		case *ast.RangeStmt:
			if id, ok := x.Key.(*ast.Ident); ok {
				c.locals[id.Name] = true
			}
			if id, ok := x.Value.(*ast.Ident); ok {
				c.locals[id.Name] = true
			}
		case *ast.LabeledStmt:
		}
		return true
	})
	// repo side: local constants print as their value
	if info != nil {
		ast.Inspect(fd.Body, func(n ast.Node) bool {
			id, ok := n.(*ast.Ident)
			if !ok {
				return true
			}
			var obj types.Object
			if o := info.Uses[id]; o != nil {
				obj = o
			} else if o := info.Defs[id]; o != nil {
				obj = o
			}
			if cst, ok := obj.(*types.Const); ok && cst.Parent() != nil && cst.Parent() != cst.Pkg().Scope() {
				c.consts[id] = cst.Val().ExactString()
				c.locals["const:"+id.Name] = true
				delete(c.locals, id.Name)
			}
			return true
		})
	}
	var sig []string
	if fd.Type.Params != nil {
		for _, f := range fd.Type.Params.List {
			for _, n := range f.Names {
				if n.Name == c.dropId {
					continue
				}
				sig = append(sig, c.id(n.Name)+" "+c.expr(f.Type))
			}
		}
	}
	out := []string{"func(" + strings.Join(sig, ",") + ")"}
	return append(out, c.stmts(fd.Body.List)...)
}

type refSource struct {
	fset  *token.FileSet
	funcs map[string]*ast.FuncDecl
	decls map[string]ast.Expr // package-level const/var initialisers
	err   string
}

func loadStrconvRef(c *Ctx) *refSource {
	v := c.Memo("strconvRef", func() interface{} {
		r := &refSource{fset: token.NewFileSet(), funcs: map[string]*ast.FuncDecl{}, decls: map[string]ast.Expr{}}
		g := goroot()
		if g == "" {
			r.err = "GOROOT not found"
			return r
		}
		for _, f := range []string{"ftoaryu.go", "eisel_lemire.go", "ftoa.go", "itoa.go"} {
			af, err := parser.ParseFile(r.fset, filepath.Join(g, "src", "strconv", f), nil, 0)
			if err != nil {
				r.err = err.Error()
				return r
			}
			for _, d := range af.Decls {
				switch x := d.(type) {
				case *ast.FuncDecl:
					if x.Recv == nil {
						r.funcs[x.Name.Name] = x
					}
				case *ast.GenDecl:
					for _, sp := range x.Specs {
						if vs, ok := sp.(*ast.ValueSpec); ok {
							for i, n := range vs.Names {
								if i < len(vs.Values) {
									r.decls[n.Name] = vs.Values[i]
								}
							}
						}
					}
				}
			}
		}
		c.Unit("strconv_reference_funcs", len(r.funcs))
		return r
	})
	return v.(*refSource)
}

// C18.ryu — the private Ryu copy equals the same-named functions of GOROOT/src/strconv after alpha-normalisation and
// the declared float64 specialisation.
func ruleRyuSibling(c *Ctx) {
	p := c.G()
	ref := loadStrconvRef(c)
	if ref.err != "" {
		c.Unresolved("GOROOT/src/strconv", ref.err)
		return
	}
	n := 0
	for _, name := range p.FuncNames() {
		fd := p.Func(name)
		if fd.Recv != nil || fd.Body == nil {
			continue
		}
		file := p.FileOf(fd)
		if file != "ftoaryu.go" && !(file == "appendfloat_f.go" && name == "fmtF") {
			continue
		}
		rf := ref.funcs[name]
		if rf == nil {
			c.Undecided("ryu:"+name, p.Pos(fd), "no function of this name in GOROOT/src/strconv to compare with")
			continue
		}
		n++
		got := canonFunc(fd, p.Info, false)
		want := canonFunc(rf, nil, true)
		diffAt := -1
		for i := 0; i < len(got) || i < len(want); i++ {
			if i >= len(got) || i >= len(want) || got[i] != want[i] {
				diffAt = i
				break
			}
		}
		if diffAt < 0 {
			c.Ok("ryu:"+name, p.Pos(fd), fmt.Sprintf("%d statements identical to strconv.%s (float64 specialisation)", len(got), name))
			continue
		}
		g, w := "<missing>", "<missing>"
		if diffAt < len(got) {
			g = got[diffAt]
		}
		if diffAt < len(want) {
			w = want[diffAt]
		}
		c.Bad("ryu:"+name, p.Pos(fd), fmt.Sprintf("differs from strconv.%s at top-level statement %d: have `%s` — reference `%s` (alpha-normalised; float32 branches removed, flt.mantbits=52, flt.bias=-1023)", name, diffAt, trunc(g, 260), trunc(w, 260)),
			"floats for which the shortest-digit search takes this branch print differently from encoding/json")
	}
	c.MinCount("Ryu functions compared with strconv", n, 10)
	// package-level constants used by the copy
	for _, k := range []string{"smallsString", "detailedPowersOfTenMinExp10", "detailedPowersOfTenMaxExp10", "host32bit", "uint64pow10"} {
		rv, okr := ref.decls[k]
		obj := p.Pkg.Types.Scope().Lookup(k)
		if obj == nil {
			continue
		}
		if !okr {
			c.Undecided("ryu:const:"+k, "", "not found in the reference")
			continue
		}
		if cst, ok := obj.(*types.Const); ok {
			// evaluate the reference initialiser textually through the canonical printer (string/number literals only)
			cc := &canon{names: map[string]string{}, consts: map[*ast.Ident]string{}, selSub: map[string]string{}, locals: map[string]bool{}}
			refTxt := strings.TrimPrefix(cc.expr(rv), "+")
			have := cst.Val().ExactString()
			// string constants: concatenation of literals
			if cst.Val().Kind() == constant.String {
				refTxt = strings.ReplaceAll(strings.ReplaceAll(refTxt, `"+"`, ""), `("`, `"`)
				refTxt = strings.Trim(strings.ReplaceAll(strings.ReplaceAll(refTxt, "(", ""), ")", ""), "")
			}
			okc := refTxt == have || strings.ReplaceAll(refTxt, `"+"`, "") == have
			if cst.Val().Kind() != constant.String && cst.Val().Kind() != constant.Int {
				okc = true // boolean expressions such as host32bit are compared structurally by the functions using them
			}
			c.Check(okc, "ryu:const:"+k, "", "equals strconv."+k, fmt.Sprintf("constant %s = %s differs from strconv's %s", k, trunc(have, 80), trunc(refTxt, 80)), "")
		}
	}
}

// C18.tab — detailedPowersOfTen[i] is the 128-bit truncated mantissa of 10^(i-348).
func rulePow10Table(c *Ctx) {
	p := c.G()
	vs, idx := p.PkgVarSpec("detailedPowersOfTen")
	if vs == nil || idx >= len(vs.Values) {
		c.Unresolved("detailedPowersOfTen", "table not found")
		return
	}
	lit, ok := vs.Values[idx].(*ast.CompositeLit)
	if !ok {
		c.Unresolved("detailedPowersOfTen", "not a composite literal")
		return
	}
	minE, ok1 := p.PkgConstInt("detailedPowersOfTenMinExp10")
	maxE, ok2 := p.PkgConstInt("detailedPowersOfTenMaxExp10")
	if !ok1 || !ok2 {
		c.Unresolved("detailedPowersOfTenMinExp10", "bounds not found")
		return
	}
	c.Check(int64(len(lit.Elts)) == maxE-minE+1, "detailedPowersOfTen:len", p.Pos(vs), fmt.Sprintf("%d entries for exponents %d..%d", len(lit.Elts), minE, maxE), fmt.Sprintf("table has %d entries but the exponent range %d..%d needs %d", len(lit.Elts), minE, maxE, maxE-minE+1), "")
	bad := 0
	ten := big.NewInt(10)
	for i, el := range lit.Elts {
		pair, ok := el.(*ast.CompositeLit)
		if !ok || len(pair.Elts) != 2 {
			c.Undecided(fmt.Sprintf("detailedPowersOfTen[%d]", i), p.Pos(el), "entry is not a {lo, hi} pair")
			return
		}
		lo, okl := p.ConstUint(pair.Elts[0])
		hi, okh := p.ConstUint(pair.Elts[1])
		if !okl || !okh {
			c.Undecided(fmt.Sprintf("detailedPowersOfTen[%d]", i), p.Pos(el), "non-constant entry")
			return
		}
		e := minE + int64(i)
		var m *big.Int
		if e >= 0 {
			n := new(big.Int).Exp(ten, big.NewInt(e), nil)
			bl := n.BitLen()
			if bl > 128 {
				m = new(big.Int).Rsh(n, uint(bl-128))
			} else {
				m = new(big.Int).Lsh(n, uint(128-bl))
			}
		} else {
			d := new(big.Int).Exp(ten, big.NewInt(-e), nil)
			b := d.BitLen()
			num := new(big.Int).Lsh(big.NewInt(1), uint(127+b))
			m = new(big.Int).Div(num, d)
			if m.BitLen() > 128 {
				m.Rsh(m, uint(m.BitLen()-128))
			}
		}
		wantHi := new(big.Int).Rsh(m, 64).Uint64()
		wantLo := new(big.Int).And(m, new(big.Int).SetUint64(^uint64(0))).Uint64()
		if lo != wantLo || hi != wantHi {
			bad++
			if bad <= 5 {
				c.Bad(fmt.Sprintf("detailedPowersOfTen[%d]", i), p.Pos(el), fmt.Sprintf("entry for 1e%d is {%#016x, %#016x}, the truncated 128-bit mantissa of 10^%d is {%#016x, %#016x}", e, lo, hi, e, wantLo, wantHi), fmt.Sprintf("doubles whose shortest representation needs 10^%d", e))
			}
		}
	}
	if bad == 0 {
		c.Ok("detailedPowersOfTen:values", p.Pos(vs), fmt.Sprintf("all %d entries equal floor(10^e normalised to 128 bits) recomputed with math/big", len(lit.Elts)))
	}
	// smallsString = "00".."99"
	if v, ok := p.PkgConst("smallsString"); ok {
		want := ""
		for i := 0; i < 100; i++ {
			want += fmt.Sprintf("%02d", i)
		}
		c.Check(constant.StringVal(v) == want, "smallsString", "", `"00".."99"`, "smallsString is not the two-digit table 00..99", "numbers containing the mis-stated digit pair")
	} else {
		c.Unresolved("smallsString", "constant not found")
	}
}

// C18.fmt — appendFloatF decomposes the float64 exactly like strconv's generic path and formats with %f semantics.
func ruleAppendFloatF(c *Ctx) {
	p := c.G()
	fd := p.Func("appendFloatF")
	if fd == nil {
		c.Unresolved("appendFloatF", "function not found")
		return
	}
	sps, ok := p.SymPaths(fd, 1000, nil)
	if !ok || len(sps) == 0 {
		c.Undecided("appendFloatF:paths", p.Pos(fd), "no paths")
		return
	}
	bits := "math.Float64bits(P:val)"
	frac := binAtom("4503599627370495", "&", bits, true)
	expField := binAtom("2047", "&", "("+bits+">>52)", true)
	nDen, nNorm := 0, 0
	for _, sp := range sps {
		if !sp.Feasible() || sp.RetNode == nil {
			continue
		}
		denormal := false
		for _, cd := range sp.Conds {
			if cd.Other == "" && cd.Op == token.EQL && cd.L.String() == expField && cd.R.IsConst() && cd.R.K == 0 {
				denormal = true
			}
		}
		var ryu, fmtc *SymEffect
		for k := range sp.Effects {
			ef := &sp.Effects[k]
			if ef.Kind == "call" && ef.Target == "ryuFtoaShortest" {
				ryu = ef
			}
			if ef.Kind == "call" && ef.Target == "fmtF" {
				fmtc = ef
			}
		}
		site := "appendFloatF:normal"
		if denormal {
			site = "appendFloatF:denormal"
			nDen++
		} else {
			nNorm++
		}
		if ryu == nil || fmtc == nil || len(ryu.Args) != 3 || len(fmtc.Args) != 4 {
			c.Bad(site, p.Pos(fd), "the path does not call ryuFtoaShortest(&digs, mant, exp) and fmtF(dst, neg, digs, prec)", "")
			continue
		}
		wantMant := frac
		wantExp := affK(1 - 1023 - 52)
		if !denormal {
			wantMant = binAtom("4503599627370496", "|", frac, true)
			wantExp = affAtom(expField).Add(affK(-1023-52), 1)
		}
		okM := ryu.Args[1].String() == wantMant
		okE := ryu.Args[2].Eq(wantExp)
		if denormal && ryu.Args[2].Eq(affAtom(expField).Add(affK(1-1023-52), 1)) {
			okE = true // exponent field is known to be 0 on this path
		}
		neg := fmtc.Args[1].String()
		okNeg := strings.Contains(neg, bits+">>63") && strings.Contains(neg, "!=")
		prec := fmtc.Args[3].String()
		okPrec := strings.HasPrefix(prec, "max(") && strings.Contains(prec, ".nd") && strings.Contains(prec, ".dp") && strings.HasSuffix(strings.TrimRight(prec, "0123456789#"), ",0)")
		c.Check(okM && okE && okNeg && okPrec, site, p.Pos(fd), "mantissa/exponent split, sign and precision as in strconv's %f path with shortest digits",
			fmt.Sprintf("decomposition differs from IEEE-754/strconv: mantissa %s (want %s), exponent %s (want %s), sign %s, precision %s (want max(nd-dp, 0))", ryu.Args[1].String(), wantMant, ryu.Args[2].String(), wantExp.String(), neg, prec),
			map[bool]string{true: "4.9e-324 and other subnormals", false: "any normal float"}[denormal])
	}
	c.Check(nDen >= 1 && nNorm >= 1, "appendFloatF:cases", p.Pos(fd), "normal and denormal cases present", "the denormal/normal case split on the exponent field is missing", "subnormal floats")
}
