package main

import (
	"fmt"
	"go/ast"
	"go/token"
	"go/types"
	"sort"
	"strings"
)

func init() {
	reg("C20.capture", ruleLoopCapture)
	regWitness(
		Witness{Rule: "C20.capture", Name: "chunk-buffer-hoisted", File: "simdjson_amd64.go", Old: "\t\tfor {\n\t\t\ttmp := tmpPool.Get().([]byte)\n", New: "\t\tvar tmp []byte\n\t\tfor {\n\t\t\ttmp = tmpPool.Get().([]byte)\n", Breaks: "chunk goroutines of ParseNDStream share one buffer variable: a chunk is lost or parsed twice"},
	)
}

// C20.capture — a goroutine started inside a loop may only capture variables that are private to the iteration (declared
// in the loop body, or the per-iteration loop variables of Go >= 1.22) or that the loop never assigns.  A variable that
// is declared outside the loop, assigned inside it and read by the goroutine is shared between the goroutine and every
// later iteration without synchronisation.
func ruleLoopCapture(c *Ctx) {
	p := c.G()
	nGo := 0
	for _, fd := range p.funcs {
		if fd.Body == nil {
			continue
		}
		var loops []ast.Stmt
		var visit func(n ast.Node)
		visit = func(n ast.Node) {
			ast.Inspect(n, func(x ast.Node) bool {
				switch v := x.(type) {
				case *ast.ForStmt:
					loops = append(loops, v)
					if v.Init != nil {
						visit(v.Init)
					}
					visit(v.Body)
					loops = loops[:len(loops)-1]
					return false
				case *ast.RangeStmt:
					loops = append(loops, v)
					visit(v.Body)
					loops = loops[:len(loops)-1]
					return false
				case *ast.GoStmt:
					lit, ok := v.Call.Fun.(*ast.FuncLit)
					if !ok || len(loops) == 0 {
						// a goroutine body may itself contain loops that start goroutines
						if ok {
							saved := loops
							loops = nil
							visit(lit.Body)
							loops = saved
						}
						return false
					}
					nGo++
					loop := loops[len(loops)-1]
					checkCapture(c, p, fd, loop, v, lit)
					saved := loops
					loops = nil
					visit(lit.Body)
					loops = saved
					return false
				}
				return true
			})
		}
		visit(fd.Body)
	}
	c.MinCount("goroutines started inside loops", nGo, 1)
}

func checkCapture(c *Ctx, p *GoProg, fd *ast.FuncDecl, loop ast.Stmt, gs *ast.GoStmt, lit *ast.FuncLit) {
	var body *ast.BlockStmt
	switch l := loop.(type) {
	case *ast.ForStmt:
		body = l.Body
	case *ast.RangeStmt:
		body = l.Body
	}
	// variables assigned anywhere in the loop (outside the literal itself)
	assigned := map[types.Object]ast.Node{}
	ast.Inspect(loop, func(n ast.Node) bool {
		if n == ast.Node(lit) {
			return false
		}
		switch x := n.(type) {
		case *ast.AssignStmt:
			for _, l := range x.Lhs {
				if id, ok := ast.Unparen(l).(*ast.Ident); ok {
					if o := p.Info.Uses[id]; o != nil {
						assigned[o] = x
					}
				}
			}
		case *ast.IncDecStmt:
			if id, ok := ast.Unparen(x.X).(*ast.Ident); ok {
				if o := p.Info.Uses[id]; o != nil {
					assigned[o] = x
				}
			}
		case *ast.UnaryExpr:
			if x.Op == token.AND {
				if id, ok := ast.Unparen(x.X).(*ast.Ident); ok {
					if o := p.Info.Uses[id]; o != nil {
						assigned[o] = x // address taken: may be written through the pointer
					}
				}
			}
		}
		return true
	})
	var bad []string
	seen := map[types.Object]bool{}
	ast.Inspect(lit.Body, func(n ast.Node) bool {
		id, ok := n.(*ast.Ident)
		if !ok {
			return true
		}
		o, ok := p.Info.Uses[id].(*types.Var)
		if !ok || o.IsField() || seen[o] || o.Pkg() != p.Pkg.Types || o.Parent() == p.Pkg.Types.Scope() {
			return true
		}
		seen[o] = true
		// declared inside the literal?
		if o.Pos() >= lit.Pos() && o.Pos() < lit.End() {
			return true
		}
		// private to the iteration: declared in the loop body, or a loop variable (per-iteration since go 1.22)
		if o.Pos() >= loop.Pos() && o.Pos() < loop.End() {
			if o.Pos() >= body.Pos() || p.FileGoVersionAtLeast(loop, 1, 22) {
				return true
			}
		}
		if at, isAssigned := assigned[o]; isAssigned {
			bad = append(bad, fmt.Sprintf("%s (declared at %s, assigned in the loop at %s)", o.Name(), p.Pos(declNode(p, o)), p.Pos(at)))
		}
		return true
	})
	sort.Strings(bad)
	name := funcDisplayName(fd)
	c.Check(len(bad) == 0, name+":go-in-loop"+goOrdinal(p, fd, gs), p.Pos(gs), "captures only per-iteration or loop-invariant variables",
		"the goroutine started in a loop of "+name+" captures "+strings.Join(bad, ", ")+": the variable is shared between this goroutine and the following iterations, which overwrite it while the goroutine may still read it",
		"a stream larger than one chunk (ParseNDStream with more than 10 MB of input)")
}

type posNode token.Pos

func (n posNode) Pos() token.Pos { return token.Pos(n) }
func (n posNode) End() token.Pos { return token.Pos(n) }

func declNode(p *GoProg, o types.Object) ast.Node { return posNode(o.Pos()) }

func goOrdinal(p *GoProg, fd *ast.FuncDecl, gs *ast.GoStmt) string {
	k, out := 0, ""
	ast.Inspect(fd.Body, func(n ast.Node) bool {
		if g, ok := n.(*ast.GoStmt); ok {
			k++
			if g == gs {
				out = fmt.Sprintf("#%d", k)
			}
		}
		return true
	})
	return out
}
