package main

import (
	"fmt"
	"go/ast"
	"go/token"
	"go/types"
	"sort"
	"strings"
)

// Operand order of comparisons and the branch order of if/else are not anchors. The rules speak about conditions in the
// orientation they had on the reference tree (`err != nil`, `off < len(tape)`, `if ok {A} else {B}`); orientTable
// freezes, per function, every comparison with side-effect-free operands as (op, left, right) in role names. After
// loading (and after the role layer), a comparison of the current tree that is the *mirror* of a frozen one
// (`nil != err`, `len(tape) > off`) is turned back in the syntax tree the analyses use; `if !(c) {B} else {A}` is
// turned into `if c {A} else {B}`. Both rewrites preserve meaning (operands are pure; the two branch orders are the
// same control flow). Comparisons that are not in the table are left as written.

type orientEntry struct{ Op, X, Y string }

var mirrorOp = map[token.Token]token.Token{token.EQL: token.EQL, token.NEQ: token.NEQ, token.LSS: token.GTR, token.GTR: token.LSS, token.LEQ: token.GEQ, token.GEQ: token.LEQ}

// pureExpr: no calls other than len/cap and conversions, no receive, no function literal.
func (p *GoProg) pureExpr(e ast.Expr) bool {
	ok := true
	ast.Inspect(e, func(x ast.Node) bool {
		switch c := x.(type) {
		case *ast.CallExpr:
			if tv, has := p.Info.Types[c.Fun]; has && tv.IsType() {
				return true
			}
			if id, isID := ast.Unparen(c.Fun).(*ast.Ident); isID && (id.Name == "len" || id.Name == "cap") && p.Info.Uses[id] != nil && p.Info.Uses[id].Pkg() == nil {
				return true
			}
			ok = false
		case *ast.UnaryExpr:
			if c.Op == token.ARROW {
				ok = false
			}
		case *ast.FuncLit:
			ok = false
		}
		return ok
	})
	return ok
}

func (p *GoProg) comparisonsOf(fd *ast.FuncDecl) []*ast.BinaryExpr {
	var out []*ast.BinaryExpr
	if fd.Body == nil {
		return nil
	}
	ast.Inspect(fd.Body, func(n ast.Node) bool {
		be, ok := n.(*ast.BinaryExpr)
		if !ok {
			return true
		}
		if _, cmp := mirrorOp[be.Op]; cmp && p.pureExpr(be.X) && p.pureExpr(be.Y) {
			out = append(out, be)
		}
		return true
	})
	return out
}

// noOrient disables the layer (only for generating the table).
var noOrient bool

func (p *GoProg) applyOrient() {
	for name, fd := range p.funcs {
		if fd.Body == nil {
			continue
		}
		ref := map[orientEntry]bool{}
		for _, e := range orientTable[name] {
			ref[e] = true
		}
		if len(ref) > 0 {
			for _, be := range p.comparisonsOf(fd) {
				xs, ys := p.Str(be.X), p.Str(be.Y)
				if ref[orientEntry{be.Op.String(), xs, ys}] {
					continue
				}
				if ref[orientEntry{mirrorOp[be.Op].String(), ys, xs}] {
					be.X, be.Y = be.Y, be.X
					be.Op = mirrorOp[be.Op]
				}
			}
		}
		// if !(c) {B} else {A}  →  if c {A} else {B}; and an if/else on the *negation* of a frozen comparison
		// (if a <= b {B} else {A} where the reference has a > b) is turned back the same way
		negOp := map[token.Token]token.Token{token.EQL: token.NEQ, token.NEQ: token.EQL, token.LSS: token.GEQ, token.GEQ: token.LSS, token.GTR: token.LEQ, token.LEQ: token.GTR}
		ast.Inspect(fd.Body, func(n ast.Node) bool {
			ifs, ok := n.(*ast.IfStmt)
			if !ok || ifs.Else == nil {
				return true
			}
			eb, ok := ifs.Else.(*ast.BlockStmt)
			if !ok {
				return true
			}
			// guard style first: when exactly one branch leaves (return/break/continue/goto/panic), that branch is the
			// `if` body and the other one follows it (the else is then dissolved by the normal forms)
			bl, el := blockLeaves(ifs.Body), blockLeaves(eb)
			if bl && el {
				// both leave: the shorter one is the guard
				count := func(b *ast.BlockStmt) int {
					n := 0
					ast.Inspect(b, func(x ast.Node) bool {
						if x != nil {
							n++
						}
						return true
					})
					return n
				}
				// a comparison keeps the polarity it has on the reference tree; otherwise the shorter branch is the guard
				decided := false
				if be, ok := ast.Unparen(ifs.Cond).(*ast.BinaryExpr); ok && len(ref) > 0 {
					if nop, isCmp := negOp[be.Op]; isCmp {
						xs, ys := p.Str(be.X), p.Str(be.Y)
						switch {
						case ref[orientEntry{be.Op.String(), xs, ys}] || ref[orientEntry{mirrorOp[be.Op].String(), ys, xs}]:
							return true
						case ref[orientEntry{nop.String(), xs, ys}] || ref[orientEntry{mirrorOp[nop].String(), ys, xs}]:
							decided = true
						}
					}
				}
				if !decided && count(eb) >= count(ifs.Body) {
					return true
				}
				bl = false
			}
			if bl && !el {
				return true
			}
			if el && !bl {
				nc := &ast.UnaryExpr{Op: token.NOT, OpPos: ifs.Cond.Pos(), X: &ast.ParenExpr{X: ifs.Cond, Lparen: ifs.Cond.Pos(), Rparen: ifs.Cond.End()}}
				if tv, ok := p.Info.Types[ifs.Cond]; ok {
					p.Info.Types[nc] = types.TypeAndValue{Type: tv.Type}
					p.Info.Types[nc.X] = types.TypeAndValue{Type: tv.Type}
				}
				ifs.Cond = nc
				ifs.Body, ifs.Else = eb, ifs.Body
				return true
			}
			if u, ok := ast.Unparen(ifs.Cond).(*ast.UnaryExpr); ok && u.Op == token.NOT {
				ifs.Cond = ast.Unparen(u.X)
				ifs.Body, ifs.Else = eb, ifs.Body
				return true
			}
			if be, ok := ast.Unparen(ifs.Cond).(*ast.BinaryExpr); ok && len(ref) > 0 {
				if nop, isCmp := negOp[be.Op]; isCmp && p.pureExpr(be.X) && p.pureExpr(be.Y) {
					xs, ys := p.Str(be.X), p.Str(be.Y)
					if ref[orientEntry{be.Op.String(), xs, ys}] || ref[orientEntry{mirrorOp[be.Op].String(), ys, xs}] {
						return true
					}
					isFloat := false
					if t := p.Info.TypeOf(be.X); t != nil {
						if b, ok := t.Underlying().(*types.Basic); ok && b.Info()&(types.IsFloat|types.IsComplex) != 0 {
							isFloat = true
						}
					}
					if isFloat {
						return true
					}
					switch {
					case ref[orientEntry{nop.String(), xs, ys}]:
						be.Op = nop
						ifs.Body, ifs.Else = eb, ifs.Body
					case ref[orientEntry{mirrorOp[nop].String(), ys, xs}]:
						be.X, be.Y = be.Y, be.X
						be.Op = mirrorOp[nop]
						ifs.Body, ifs.Else = eb, ifs.Body
					}
				}
			}
			return true
		})
		p.negationNormalForm(fd)
		p.splitNewCompoundConds(name, fd)
		p.normalForms(fd)
	}
}

func orientGenSource(p *GoProg) string {
	var names []string
	for n := range p.funcs {
		names = append(names, n)
	}
	sort.Strings(names)
	var sb strings.Builder
	sb.WriteString("// Code generated by `simdvet orientgen` from the reference tree; frozen. DO NOT EDIT.\n\npackage main\n\nvar orientTable = map[string][]orientEntry{\n")
	for _, n := range names {
		fd := p.funcs[n]
		if strings.HasSuffix(p.FileOf(fd), "_test.go") {
			continue
		}
		seen := map[orientEntry]bool{}
		var es []orientEntry
		for _, be := range p.comparisonsOf(fd) {
			e := orientEntry{be.Op.String(), p.Str(be.X), p.Str(be.Y)}
			if !seen[e] {
				seen[e] = true
				es = append(es, e)
			}
		}
		if len(es) == 0 {
			continue
		}
		fmt.Fprintf(&sb, "\t%q: {", n)
		for _, e := range es {
			fmt.Fprintf(&sb, "{%q, %q, %q}, ", e.Op, e.X, e.Y)
		}
		sb.WriteString("},\n")
	}
	sb.WriteString("}\n")
	return sb.String()
}

// normalForms rewrites two statement spellings into the one the rules know:
//   var x = e           →  x := e          (one name, no explicit type, inside a function)
//   x = x op e          →  x op= e         (x side-effect free; also x = e op x for commutative op)
func (p *GoProg) normalForms(fd *ast.FuncDecl) {
	assignOp := map[token.Token]token.Token{token.ADD: token.ADD_ASSIGN, token.SUB: token.SUB_ASSIGN, token.OR: token.OR_ASSIGN, token.AND: token.AND_ASSIGN, token.XOR: token.XOR_ASSIGN, token.SHL: token.SHL_ASSIGN, token.SHR: token.SHR_ASSIGN, token.MUL: token.MUL_ASSIGN}
	commut := map[token.Token]bool{token.ADD: true, token.OR: true, token.AND: true, token.XOR: true, token.MUL: true}
	fixList := func(list []ast.Stmt) {
		for i, st := range list {
			switch s := st.(type) {
			case *ast.DeclStmt:
				gd, ok := s.Decl.(*ast.GenDecl)
				if !ok || gd.Tok != token.VAR || len(gd.Specs) != 1 {
					continue
				}
				vs, ok := gd.Specs[0].(*ast.ValueSpec)
				if !ok || vs.Type != nil || len(vs.Names) != 1 || len(vs.Values) != 1 || vs.Names[0].Name == "_" {
					continue
				}
				list[i] = &ast.AssignStmt{Lhs: []ast.Expr{vs.Names[0]}, Tok: token.DEFINE, TokPos: vs.Names[0].End(), Rhs: []ast.Expr{vs.Values[0]}}
			case *ast.AssignStmt:
				// x += 1 / x -= 1  →  x++ / x--
				if (s.Tok == token.ADD_ASSIGN || s.Tok == token.SUB_ASSIGN) && len(s.Lhs) == 1 && len(s.Rhs) == 1 {
					if k, ok := p.ConstInt(s.Rhs[0]); ok && k == 1 {
						if bt, ok := p.Info.TypeOf(s.Lhs[0]).Underlying().(*types.Basic); ok && bt.Info()&types.IsInteger != 0 {
							tok := token.INC
							if s.Tok == token.SUB_ASSIGN {
								tok = token.DEC
							}
							list[i] = &ast.IncDecStmt{X: s.Lhs[0], TokPos: s.TokPos, Tok: tok}
							continue
						}
					}
				}
				if s.Tok != token.ASSIGN || len(s.Lhs) != 1 || len(s.Rhs) != 1 || !p.pureExpr(s.Lhs[0]) {
					continue
				}
				be, ok := ast.Unparen(s.Rhs[0]).(*ast.BinaryExpr)
				if !ok {
					continue
				}
				aop, ok := assignOp[be.Op]
				if !ok {
					continue
				}
				// only for numeric/integer operands: string concatenation x = x + y is the same operator, fine too
				lhs := p.Str(s.Lhs[0])
				switch {
				case p.Str(be.X) == lhs:
					s.Tok, s.Rhs[0] = aop, ast.Unparen(be.Y)
				case commut[be.Op] && p.Str(be.Y) == lhs && p.pureExpr(be.X):
					if t := p.Info.TypeOf(be.X); t != nil && strings.Contains(t.String(), "string") {
						continue // string concatenation is not commutative
					}
					s.Tok, s.Rhs[0] = aop, ast.Unparen(be.X)
				}
			}
		}
	}
	// statements without effect are dropped: `_ = <pure expression>`, empty statements, empty blocks
	noEffect := func(st ast.Stmt) bool {
		switch s := st.(type) {
		case *ast.EmptyStmt:
			return true
		case *ast.BlockStmt:
			return len(s.List) == 0
		case *ast.AssignStmt:
			if s.Tok != token.ASSIGN || len(s.Lhs) != len(s.Rhs) {
				return false
			}
			for i, l := range s.Lhs {
				id, ok := l.(*ast.Ident)
				if !ok || id.Name != "_" || !p.pureExpr(s.Rhs[i]) {
					return false
				}
				// indexing, division and dereferences can panic: keep those
				risky := false
				ast.Inspect(s.Rhs[i], func(x ast.Node) bool {
					switch b := x.(type) {
					case *ast.IndexExpr, *ast.SliceExpr, *ast.StarExpr, *ast.TypeAssertExpr:
						risky = true
					case *ast.BinaryExpr:
						if b.Op == token.QUO || b.Op == token.REM {
							risky = true
						}
					case *ast.SelectorExpr:
						if sel, ok := p.Info.Selections[b]; ok && sel.Indirect() {
							risky = true
						}
					}
					return true
				})
				if risky {
					return false
				}
			}
			return true
		}
		return false
	}
	prune := func(list []ast.Stmt) []ast.Stmt {
		out := list[:0]
		for _, st := range list {
			if !noEffect(st) {
				out = append(out, st)
			}
		}
		return out
	}
	// if [init;] c { …; return/break/continue/goto/panic } else { rest }  →  [init;] if c { … }; rest
	leavesBlk := func(b *ast.BlockStmt) bool {
		if len(b.List) == 0 {
			return false
		}
		switch l := b.List[len(b.List)-1].(type) {
		case *ast.ReturnStmt, *ast.BranchStmt:
			return true
		case *ast.ExprStmt:
			if call, ok := l.X.(*ast.CallExpr); ok {
				if id, ok := call.Fun.(*ast.Ident); ok && id.Name == "panic" {
					return true
				}
			}
		}
		return false
	}
	var unelse func(list []ast.Stmt) []ast.Stmt
	unelse = func(list []ast.Stmt) []ast.Stmt {
		changed := false
		var out []ast.Stmt
		for _, st := range list {
			ifs, ok := st.(*ast.IfStmt)
			if ok && ifs.Else != nil && leavesBlk(ifs.Body) {
				if eb, isBlk := ifs.Else.(*ast.BlockStmt); isBlk {
					if ifs.Init != nil {
						out = append(out, ifs.Init)
						ifs.Init = nil
					}
					ifs.Else = nil
					out = append(out, ifs)
					out = append(out, unelse(eb.List)...)
					changed = true
					continue
				}
			}
			out = append(out, st)
		}
		if !changed {
			return list
		}
		return out
	}
	ast.Inspect(fd.Body, func(n ast.Node) bool {
		switch x := n.(type) {
		case *ast.BlockStmt:
			x.List = unelse(x.List)
		case *ast.CaseClause:
			x.Body = unelse(x.Body)
		case *ast.CommClause:
			x.Body = unelse(x.Body)
		}
		return true
	})
	ast.Inspect(fd.Body, func(n ast.Node) bool {
		switch x := n.(type) {
		case *ast.BlockStmt:
			x.List = prune(x.List)
			fixList(x.List)
		case *ast.CaseClause:
			x.Body = prune(x.Body)
			fixList(x.Body)
		case *ast.CommClause:
			x.Body = prune(x.Body)
			fixList(x.Body)
		}
		return true
	})
}

// negationNormalForm pushes `!` inwards: !(A || B) → !A && !B, !(A && B) → !A || !B, !!A → A, and !(x op y) → x nop y
// for comparisons of non-floating-point operands (with NaN, !(a < b) is not a >= b).
func (p *GoProg) negationNormalForm(fd *ast.FuncDecl) {
	negCmp := map[token.Token]token.Token{token.EQL: token.NEQ, token.NEQ: token.EQL, token.LSS: token.GEQ, token.GEQ: token.LSS, token.GTR: token.LEQ, token.LEQ: token.GTR}
	isFloat := func(e ast.Expr) bool {
		t := p.Info.TypeOf(e)
		if t == nil {
			return true
		}
		b, ok := t.Underlying().(*types.Basic)
		return ok && b.Info()&(types.IsFloat|types.IsComplex) != 0
	}
	boolTV := func(e ast.Expr, like ast.Expr) {
		if tv, ok := p.Info.Types[like]; ok {
			p.Info.Types[e] = types.TypeAndValue{Type: tv.Type}
		}
	}
	var neg func(e ast.Expr) ast.Expr
	var norm func(e ast.Expr) ast.Expr
	neg = func(e ast.Expr) ast.Expr {
		switch v := ast.Unparen(e).(type) {
		case *ast.UnaryExpr:
			if v.Op == token.NOT {
				return norm(v.X)
			}
		case *ast.BinaryExpr:
			switch v.Op {
			case token.LOR, token.LAND:
				op := token.LAND
				if v.Op == token.LAND {
					op = token.LOR
				}
				out := &ast.BinaryExpr{X: neg(v.X), Op: op, OpPos: v.OpPos, Y: neg(v.Y)}
				boolTV(out, v)
				return out
			default:
				if nop, ok := negCmp[v.Op]; ok && !isFloat(v.X) && !isFloat(v.Y) {
					out := &ast.BinaryExpr{X: v.X, Op: nop, OpPos: v.OpPos, Y: v.Y}
					boolTV(out, v)
					return out
				}
			}
		}
		inner := norm(e)
		switch inner.(type) {
		case *ast.BinaryExpr:
			pe := &ast.ParenExpr{X: inner, Lparen: e.Pos(), Rparen: e.End()}
			boolTV(pe, e)
			inner = pe
		}
		out := &ast.UnaryExpr{Op: token.NOT, OpPos: e.Pos(), X: inner}
		boolTV(out, e)
		return out
	}
	norm = func(e ast.Expr) ast.Expr {
		switch v := e.(type) {
		case *ast.ParenExpr:
			// keep the parentheses only where they still matter
			in := norm(v.X)
			if in != v.X {
				if _, isBin := in.(*ast.BinaryExpr); isBin {
					pe := &ast.ParenExpr{X: in, Lparen: v.Lparen, Rparen: v.Rparen}
					boolTV(pe, v)
					return pe
				}
				return in
			}
			return e
		case *ast.UnaryExpr:
			if v.Op == token.NOT {
				switch ast.Unparen(v.X).(type) {
				case *ast.BinaryExpr, *ast.UnaryExpr:
					n := neg(v.X)
					if u, still := n.(*ast.UnaryExpr); still && u.Op == token.NOT && ast.Unparen(u.X) == ast.Unparen(v.X) {
						return e
					}
					return n
				}
			}
			return e
		case *ast.BinaryExpr:
			if v.Op == token.LOR || v.Op == token.LAND {
				x, y := norm(v.X), norm(v.Y)
				// a conjunction nested in a disjunction keeps its parentheses (printing only)
				if x != v.X || y != v.Y {
					out := &ast.BinaryExpr{X: x, Op: v.Op, OpPos: v.OpPos, Y: y}
					boolTV(out, v)
					return out
				}
			}
			return e
		}
		return e
	}
	// conditions of if / for and boolean right-hand sides
	ast.Inspect(fd.Body, func(n ast.Node) bool {
		switch x := n.(type) {
		case *ast.IfStmt:
			x.Cond = norm(x.Cond)
		case *ast.ForStmt:
			if x.Cond != nil {
				x.Cond = norm(x.Cond)
			}
		case *ast.AssignStmt:
			for i, r := range x.Rhs {
				if t := p.Info.TypeOf(r); t != nil {
					if b, ok := t.Underlying().(*types.Basic); ok && b.Info()&types.IsBoolean != 0 {
						x.Rhs[i] = norm(r)
					}
				}
			}
		case *ast.ReturnStmt:
			for i, r := range x.Results {
				if t := p.Info.TypeOf(r); t != nil {
					if b, ok := t.Underlying().(*types.Basic); ok && b.Info()&types.IsBoolean != 0 {
						x.Results[i] = norm(r)
					}
				}
			}
		}
		return true
	})
}

// blockLeaves: the block ends in a statement that leaves it for good.
func blockLeaves(b *ast.BlockStmt) bool {
	if b == nil || len(b.List) == 0 {
		return false
	}
	switch l := b.List[len(b.List)-1].(type) {
	case *ast.ReturnStmt, *ast.BranchStmt:
		return true
	case *ast.ExprStmt:
		if call, ok := l.X.(*ast.CallExpr); ok {
			if id, ok := call.Fun.(*ast.Ident); ok && id.Name == "panic" {
				return true
			}
		}
	}
	return false
}
