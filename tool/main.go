package main

import (
	"go/printer"
	"encoding/json"
	"go/ast"
	"fmt"
	"os"
	"path/filepath"
	"sort"
	"strings"
	"time"
)

// PropInfo describes what the rule pack of one property decides.
type PropInfo struct {
	ID          string
	Decides     string
	NotDecided  []string
	Assumptions []string
	Exhaustive  bool
	Quick       []string // rule names
	Thorough    []string // additional rule names in the thorough tier
}

type ruleFn func(*Ctx)

var rules = map[string]ruleFn{}

func reg(name string, f ruleFn) { rules[name] = f }

var props = map[string]*PropInfo{}

func regProp(p *PropInfo) { props[p.ID] = p }

func usage() {
	fmt.Fprintln(os.Stderr, "usage: simdvet check <Cnn> [--tier quick|thorough] [--repo /repo] [--verif /verif]")
	fmt.Fprintln(os.Stderr, "       simdvet list")
	fmt.Fprintln(os.Stderr, "       simdvet rule <rule> [--repo /repo]     (run one rule, print obligations)")
	os.Exit(2)
}

func main() {
	if len(os.Args) < 2 {
		usage()
	}
	repo, verif, tier := "/repo", "/verif", os.Getenv("VERIF_TIER")
	if tier == "" {
		tier = "quick"
	}
	var pos []string
	args := os.Args[2:]
	verbose := false
	for i := 0; i < len(args); i++ {
		switch args[i] {
		case "--tier":
			i++
			tier = args[i]
		case "--repo":
			i++
			repo = args[i]
		case "--verif":
			i++
			verif = args[i]
		case "-v":
			verbose = true
		default:
			pos = append(pos, args[i])
		}
	}
	if tier != "quick" && tier != "thorough" {
		usage()
	}
	repo, _ = filepath.Abs(repo)
	verif, _ = filepath.Abs(verif)
	os.Unsetenv("GOWORK")
	switch os.Args[1] {
	case "list":
		var ids []string
		for id := range props {
			ids = append(ids, id)
		}
		sort.Strings(ids)
		for _, id := range ids {
			p := props[id]
			fmt.Printf("%s quick=%s thorough=+%s\n", id, strings.Join(p.Quick, ","), strings.Join(p.Thorough, ","))
		}
	case "src":
		// the normalised source of one function as the analyses see it
		c := NewCtx("adhoc", tier, repo, verif)
		p := c.G()
		if fd := p.Func(pos[0]); fd != nil {
			printer.Fprint(os.Stdout, p.Fset, fd)
			fmt.Println()
		}
	case "sym":
		c := NewCtx("adhoc", tier, repo, verif)
		p := c.G()
		fd := p.Func(pos[0])
		if fd == nil {
			fmt.Println("no such function")
			os.Exit(2)
		}
		sps, ok := p.SymPaths(fd, 100000, nil)
		fmt.Println("paths:", len(sps), ok)
		for i, sp := range sps {
			if len(pos) > 1 && fmt.Sprint(i) != pos[1] {
				continue
			}
			fmt.Printf("--- path %d feasible=%v\n", i, sp.Feasible())
			for _, cd := range sp.Conds {
				fmt.Println("   cond:", cd.String())
			}
			for _, ef := range sp.Effects {
				fmt.Printf("   %s %s base=%s val=%s args=%v\n", ef.Kind, ef.Target, ef.Base, ef.Val.String(), ef.Args)
			}
		}
	case "symseg":
		c := NewCtx("adhoc", tier, repo, verif)
		p := c.G()
		fd := p.Func(pos[0])
		lp := mainSwitchLoop(p, fd)
		if lp == nil {
			lp = outerLoop(fd)
		}
		sps := p.LoopSegmentPaths(fd, lp, 100000)
		fmt.Println("segment paths:", len(sps))
		for i, sp := range sps {
			if len(pos) > 1 && fmt.Sprint(i) != pos[1] {
				continue
			}
			fmt.Printf("--- path %d feasible=%v exit=%v\n", i, sp.Feasible(), sp.RetNode != nil)
			for _, cd := range sp.Conds {
				fmt.Println("   cond:", cd.String())
			}
			for _, ef := range sp.Effects {
				fmt.Printf("   %s %s base=%s val=%s args=%v\n", ef.Kind, ef.Target, ef.Base, ef.Val.String(), ef.Args)
			}
		}
	case "symlit":
		// symlit <Func> <n>: loop segment paths of the n-th function literal (source order) of Func
		c := NewCtx("adhoc", tier, repo, verif)
		p := c.G()
		fd := p.Func(pos[0])
		var lits []*ast.FuncLit
		ast.Inspect(fd.Body, func(n ast.Node) bool {
			if l, ok := n.(*ast.FuncLit); ok {
				lits = append(lits, l)
			}
			return true
		})
		var k int
		fmt.Sscan(pos[1], &k)
		lit := lits[k]
		var loop ast.Stmt
		ast.Inspect(lit.Body, func(n ast.Node) bool {
			if loop != nil {
				return false
			}
			switch n.(type) {
			case *ast.ForStmt, *ast.RangeStmt:
				loop = n.(ast.Stmt)
				return false
			case *ast.FuncLit:
				return n == ast.Node(lit)
			}
			return true
		})
		var sps []*SymPath
		if loop != nil {
			sps = p.BodyLoopSegmentPaths(fd, lit.Body, loop, 100000)
		} else {
			sps, _, _ = symPathsOfBody(p, fd, lit.Body, 100000)
		}
		fmt.Println("literals:", len(lits), "paths:", len(sps))
		for i, sp := range sps {
			fmt.Printf("--- path %d feasible=%v continues=%v\n", i, sp.Feasible(), sp.Continues)
			for _, cd := range sp.Conds {
				fmt.Println("   cond:", trunc(cd.String(), 150))
			}
			for _, ef := range sp.Effects {
				fmt.Printf("   %s %s base=%s val=%s\n", ef.Kind, ef.Target, ef.Base, trunc(ef.Val.String(), 120))
			}
		}
	case "asm":
		c := NewCtx("adhoc", tier, repo, verif)
		a := c.Asm()
		if len(pos) == 0 {
			for n, f := range a.Funcs {
				fmt.Println(n, f.File, len(f.Instrs))
			}
			for k, d := range a.Data {
				fmt.Println("DATA", k, d.Size)
			}
			break
		}
		f := a.Funcs[pos[0]]
		if f == nil {
			fmt.Println("no such TEXT")
			os.Exit(2)
		}
		for _, in := range f.Instrs {
			fmt.Printf("%4d  %s\n", in.Line, in.String())
		}
	case "describe":
		b, _ := json.MarshalIndent(props, "", " ")
		fmt.Println(string(b))
	case "rule":
		if len(pos) != 1 {
			usage()
		}
		f, ok := rules[pos[0]]
		if !ok {
			fmt.Fprintln(os.Stderr, "unknown rule", pos[0])
			os.Exit(2)
		}
		c := NewCtx("adhoc", tier, repo, verif)
		c.RunRule(pos[0], f)
		bad := 0
		for _, o := range c.Obls {
			if o.Status == StFinding {
				bad++
			}
			if verbose || o.Status == StFinding {
				fmt.Printf("%-9s %s %s @%s %s %s\n", o.Status, o.Rule, o.Site, o.Pos, o.Note, o.Witness)
			}
		}
		fmt.Printf("rule %s: %d obligations, %d findings\n", pos[0], len(c.Obls), bad)
		if bad > 0 {
			os.Exit(1)
		}
	case "mutate":
		runMutate(repo, verif, pos)
	case "mutasm":
		runMutAsm(repo, verif, pos)
	case "neutral":
		runNeutral(repo, verif, pos)
	case "orientgen":
		noOrient = true
		c := NewCtx("adhoc", tier, repo, verif)
		fmt.Print(orientGenSource(c.G()))
	case "condgen":
		noCondSplit = true
		c := NewCtx("adhoc", tier, repo, verif)
		fmt.Print(condGenSource(c.G()))
	case "rolesgen":
		c := NewCtx("adhoc", tier, repo, verif)
		noRoles = true
		fmt.Print(rolesGenSource(c.G()))
	case "asmlive":
		c := NewCtx("adhoc", tier, repo, verif)
		a := c.Asm()
		var ns []string
		for n := range a.Funcs {
			ns = append(ns, n)
		}
		sort.Strings(ns)
		for _, n := range ns {
			fmt.Printf("%-48s in=%v\n", n, asmLiveIn(a.Funcs[n]))
		}
	case "check":
		if len(pos) != 1 {
			usage()
		}
		p, ok := props[pos[0]]
		if !ok {
			fmt.Fprintln(os.Stderr, "no rule pack for property", pos[0])
			os.Exit(2)
		}
		start := time.Now()
		c := NewCtx(p.ID, tier, repo, verif)
		names := append([]string{}, p.Quick...)
		if tier == "thorough" {
			names = append(names, p.Thorough...)
		}
		for _, n := range names {
			f, ok := rules[n]
			if !ok {
				c.cur = n
				c.Bad("rule", "", "rule not implemented in this build of the checker", "")
				continue
			}
			c.RunRule(n, f)
		}
		if tier == "thorough" {
			runWitnesses(c, p)
		}
		os.Exit(c.Finish(start, p))
	default:
		usage()
	}
}
