package main

import (
	"fmt"
	"go/token"
	"strings"
)

func init() {
	reg("C11.flush", ruleSerializeFlush)
	f := "parsed_serialize.go"
	regWitness(
		Witness{Rule: "C11.flush", Name: "tag-cursor-not-advanced", File: f, Old: "\t\ts.tagsBuf[tagsOff] = uint8(ntype)\n\t\ttagsOff++\n", New: "\t\ts.tagsBuf[tagsOff] = uint8(ntype)\n", Breaks: "every tag overwrites the previous one: the blob has no tags"},
		Witness{Rule: "C11.flush", Name: "tag-buffer-overrun", File: f, Old: "\t\tif tagsOff >= tagBufSize {", New: "\t\tif tagsOff > tagBufSize {", Breaks: "a tape with more than 65536 entries panics in Serialize"},
		Witness{Rule: "C11.flush", Name: "values-written-twice", File: f, Old: "\t\t\tvalWr.Write(s.valuesBuf)\n\t\t\ts.valuesBuf = s.valuesBuf[:0]\n", New: "\t\t\tvalWr.Write(s.valuesBuf)\n", Breaks: "tapes with more than 64 KiB of values repeat the first block"},
		Witness{Rule: "C11.flush", Name: "final-tags-dropped", File: f, Old: "\tif tagsOff > 0 {\n\t\trawTags += tagsOff", New: "\tif tagsOff < 0 {\n\t\trawTags += tagsOff", Breaks: "the last (or only) block of tags is never written"},
	)
}

// C11.flush — the buffering protocol of Serialize: every iteration stores exactly one tag byte at the tag cursor and
// moves the cursor by one; the store is inside the buffer because a full buffer is written out and the cursor reset
// first; a full values buffer is written out and emptied; what is left in either buffer after the loop is written out.
func ruleSerializeFlush(c *Ctx) {
	p := c.G()
	fd := p.Func("Serializer.Serialize")
	if fd == nil {
		c.Unresolved("Serializer.Serialize", "function not found")
		return
	}
	loop := mainSwitchLoop(p, fd)
	if loop == nil {
		loop = outerLoop(fd)
	}
	bufLen, ok := int64(0), false
	// length of the tag buffer at the loop: C15.ser checks the reslice to this constant
	if v := p.LocalConstInt(fd, "tagBufSize"); v > 0 {
		bufLen, ok = v, true
	}
	if !ok {
		c.Unresolved("Serialize:tagBufSize", "tag buffer size constant not found")
		return
	}
	sps := p.LoopSegmentPaths(fd, loop, 100000)
	if len(sps) == 0 {
		c.Undecided("Serialize:flush-paths", p.Pos(fd), "no loop paths")
		return
	}
	bad := map[string]string{}
	note := func(site, msg string, sp *SymPath) {
		if _, dup := bad[site]; !dup {
			bad[site] = msg + condsDesc(sp, 6)
		}
	}
	nCont, nTagFlush, nValFlush, nExit := 0, 0, 0, 0
	for _, sp := range sps {
		if !sp.Feasible() {
			continue
		}
		tagFull, tagRoom, valFull := false, false, false
		var tagK, valK int64
		finalTagPos, finalTagZero, finalValPos, finalValZero := false, false, false, false
		for _, cd := range sp.Conds {
			if cd.Other != "" || !cd.R.IsConst() {
				continue
			}
			switch cd.L.String() {
			case "L:tagsOff":
				switch cd.Op {
				case token.GEQ:
					tagFull, tagK = true, cd.R.K
				case token.GTR:
					if cd.R.K == 0 {
						finalTagPos = true
					} else {
						tagFull, tagK = true, cd.R.K+1
					}
				case token.LSS:
					tagRoom, tagK = true, cd.R.K
				case token.LEQ:
					if cd.R.K == 0 {
						finalTagZero = true
					} else {
						tagRoom, tagK = true, cd.R.K+1
					}
				}
			case "len(R.valuesBuf)":
				switch cd.Op {
				case token.GEQ:
					valFull, valK = true, cd.R.K
				case token.GTR:
					if cd.R.K == 0 {
						finalValPos = true
					}
				case token.LEQ:
					if cd.R.K == 0 {
						finalValZero = true
					}
				}
			}
		}
		_ = valK
		// effects in order
		var tagWrites, valWrites []string
		valResetAfterWrite := false
		tagIdx, tagStores := "", 0
		finalOff := "L:tagsOff"
		valAppendedAfterWriteBeforeReset := false
		pendingValWrite := false
		for _, ef := range sp.Effects {
			switch {
			case ef.Kind == "call" && strings.HasSuffix(ef.Target, "io.Writer).Write") && ef.Base == "L:tagWr" && len(ef.Args) == 1:
				tagWrites = append(tagWrites, ef.Args[0].String())
			case ef.Kind == "call" && strings.HasSuffix(ef.Target, "io.Writer).Write") && ef.Base == "L:valWr" && len(ef.Args) == 1:
				valWrites = append(valWrites, ef.Args[0].String())
				pendingValWrite = true
			case ef.Kind == "store" && ef.Target == "R.valuesBuf":
				if strings.HasSuffix(ef.Val.String(), "[:0]") {
					if pendingValWrite {
						valResetAfterWrite = true
					}
					pendingValWrite = false
				} else if pendingValWrite {
					valAppendedAfterWriteBeforeReset = true
				}
			case ef.Kind == "store" && ef.Base == "R.tagsBuf" && ef.Index != nil:
				tagStores++
				tagIdx = ef.Index.String()
			case ef.Kind == "store" && ef.Target == "L:tagsOff":
				finalOff = ef.Val.String()
			}
		}
		if sp.Continues {
			nCont++
			if tagStores != 1 {
				note("tag-store", fmt.Sprintf("an iteration stores %d tag bytes, expected exactly one", tagStores), sp)
				continue
			}
			switch {
			case tagFull:
				nTagFlush++
				if tagK > bufLen {
					note("tag-bound", fmt.Sprintf("the tag buffer (length %d) is flushed only at cursor %d: the store at the cursor can run past the buffer", bufLen, tagK), sp)
				}
				if len(tagWrites) != 1 || tagWrites[0] != "R.tagsBuf[:L:tagsOff]" {
					note("tag-flush", "a full tag buffer is not written out as tagsBuf[:tagsOff]", sp)
				}
				if tagIdx != "0" {
					note("tag-flush", "after writing out the tag buffer the cursor is not reset to 0 (store at "+tagIdx+")", sp)
				}
			case tagRoom:
				if tagK > bufLen {
					note("tag-bound", fmt.Sprintf("the tag store is only known to be below %d but the buffer has %d bytes", tagK, bufLen), sp)
				}
				if len(tagWrites) != 0 {
					note("tag-flush", "the tag buffer is written out although it is not full", sp)
				}
				if tagIdx != "L:tagsOff" {
					note("tag-store", "the tag byte is not stored at the cursor (index "+tagIdx+")", sp)
				}
			default:
				note("tag-bound", "the tag store is not preceded by a test of the cursor against the buffer size", sp)
			}
			wantFinal := "1"
			if tagIdx == "L:tagsOff" {
				wantFinal = "L:tagsOff+1"
			}
			if finalOff != wantFinal {
				note("tag-store", "the tag cursor is "+finalOff+" after the iteration, expected one past the stored byte ("+wantFinal+")", sp)
			}
			if valFull {
				nValFlush++
				if len(valWrites) != 1 || valWrites[0] != "R.valuesBuf" || !valResetAfterWrite || valAppendedAfterWriteBeforeReset {
					note("val-flush", "a full values buffer is not written out once and emptied before the next value is appended", sp)
				}
			} else if len(valWrites) != 0 {
				note("val-flush", "the values buffer is written out although it is not full", sp)
			}
			continue
		}
		if sp.RetNode == nil {
			continue // panic exits
		}
		nExit++
		// after the loop
		if finalTagPos == finalTagZero {
			note("final", "after the loop the tag cursor is not tested against 0", sp)
		} else if finalTagPos != (len(tagWrites) == 1 && tagWrites[0] == "R.tagsBuf[:L:tagsOff]") {
			note("final", "the tags left in the buffer after the loop are not written out exactly when there are any", sp)
		}
		if finalValPos == finalValZero {
			note("final", "after the loop the values buffer is not tested for content", sp)
		} else if finalValPos != (len(valWrites) == 1 && valWrites[0] == "R.valuesBuf") {
			note("final", "the values left in the buffer after the loop are not written out exactly when there are any", sp)
		}
	}
	if nCont < 20 || nTagFlush < 10 || nValFlush < 10 || nExit < 4 {
		bad["shape"] = fmt.Sprintf("expected continuing/tag-flush/value-flush/exit paths, got %d/%d/%d/%d", nCont, nTagFlush, nValFlush, nExit)
	}
	for _, s := range []string{"tag-store", "tag-bound", "tag-flush", "val-flush", "final", "shape"} {
		msg, isBad := bad[s]
		c.Check(!isBad, "Serialize:flush:"+s, p.Pos(fd), "holds on every path of one iteration / of the exit", "Serializer.Serialize: "+msg, "a tape with more than 65536 entries / more than 64 KiB of values")
	}
}
