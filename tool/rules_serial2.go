package main

import (
	"sort"
	"fmt"
	"go/ast"
	"go/token"
	"go/types"
	"strings"
)

func init() {
	reg("C11.block", ruleBlock)
	reg("C15.ser", ruleSerReset)
	reg("C19.join", ruleJoin)

	f := "parsed_serialize.go"
	regWitness(
		Witness{Rule: "C11.block", Name: "early-out-ignores-size", File: f, Old: "if size == 0 && len(dst) == 0 {", New: "if len(dst) == 0 {", Breaks: "tapes without strings: the message block's type byte is left unconsumed and every later field is misread"},
		Witness{Rule: "C11.block", Name: "signed-size-guard", File: f, Old: "if size > uint64(br.Len()) {", New: "if int(size) > br.Len() {", Breaks: "a block-size varint >= 2^63 passes the guard and br.Next(negative) panics"},
		Witness{Rule: "C11.block", Name: "best-uses-unknown-type", File: f, Old: "\tcase CompressBest:\n\t\ts.compValues = blockTypeZstd", New: "\tcase CompressBest:\n\t\ts.compValues = 3", Breaks: "CompressBest output cannot be read back"},
		Witness{Rule: "C15.ser", Name: "values-truncated-late", File: f, Old: "\ts.valuesBuf = s.valuesBuf[:0]\n\toff := 0", New: "\toff := 0", Breaks: "Deserialize(A) then Serialize(B) on one Serializer prepends A's value bytes"},
		Witness{Rule: "C15.ser", Name: "strings-not-reset", File: f, Old: "\tif len(s.stringBuf) > 0 {\n\t\ts.stringBuf = s.stringBuf[:0]\n\t}\n", New: "", Breaks: "the second Serialize on one Serializer declares the first call's strings too"},
		Witness{Rule: "C19.join", Name: "message-error-dropped", File: f, Old: "\tif msgErr != nil {\n\t\treturn dst, fmt.Errorf(\"reading message: %w\", msgErr)\n\t}\n", New: "\t_ = msgErr\n", Breaks: "a corrupt message block deserializes successfully"},
		Witness{Rule: "C19.join", Name: "strings-error-read-before-wait", File: f, Old: "\tsWG.Wait()\n\tif off != len(dst.Tape) {", New: "\tif off != len(dst.Tape) {", Breaks: "stringsErr is read while its decoder may still run"},
		Witness{Rule: "C19.join", Name: "no-wait-for-tags", File: f, Old: "\tdefer wg.Wait()\n", New: "", Breaks: "a values-block error returns while the tags goroutine still writes s.tagsBuf"},
	)
}

// C11.block — block framing: every block type the encoder can emit has a decoder arm; decBlock consumes exactly the
// declared bytes on every nil-return path; the size guard is evaluated on unsigned operands.
func ruleBlock(c *Ctx) {
	p := c.G()
	types3 := map[string]int64{}
	for _, n := range []string{"blockTypeUncompressed", "blockTypeS2", "blockTypeZstd"} {
		v, ok := p.PkgConstInt(n)
		if !ok {
			c.Unresolved(n, "constant not found")
			return
		}
		types3[n] = v
	}
	vals := map[int64]bool{}
	for _, v := range types3 {
		vals[v] = true
	}
	c.Check(len(vals) == 3, "const:blockTypes", "", "three distinct block types", "block type constants are not distinct", "")
	// CompressMode assigns only defined types
	cm := p.Func("Serializer.CompressMode")
	if cm == nil {
		c.Unresolved("Serializer.CompressMode", "function not found")
	} else {
		n := 0
		ast.Inspect(cm.Body, func(nd ast.Node) bool {
			as, ok := nd.(*ast.AssignStmt)
			if !ok || len(as.Lhs) != 1 {
				return true
			}
			sel, ok := as.Lhs[0].(*ast.SelectorExpr)
			if !ok || !strings.HasPrefix(sel.Sel.Name, "comp") {
				return true
			}
			n++
			v, okc := p.ConstInt(as.Rhs[0])
			c.Check(okc && vals[v], "CompressMode:"+p.Str(as), p.Pos(as), "a defined block type", "compression mode selects block type "+p.Str(as.Rhs[0])+", which no decoder arm handles", "a blob written in this mode cannot be read back")
			return true
		})
		c.MinCount("block type assignments in CompressMode", n, 12)
	}
	// encBlock / decBlock arms
	for _, fn := range []string{"encBlock", "Serializer.decBlock"} {
		fd := p.Func(fn)
		if fd == nil {
			c.Unresolved(fn, "function not found")
			continue
		}
		arms := map[int64]bool{}
		ast.Inspect(fd.Body, func(nd ast.Node) bool {
			cc, ok := nd.(*ast.CaseClause)
			if !ok {
				return true
			}
			for _, e := range cc.List {
				if v, ok := p.ConstInt(e); ok {
					arms[v] = true
				}
			}
			return true
		})
		for n, v := range types3 {
			c.Check(arms[v], fn+":arm:"+n, p.Pos(fd), "has an arm", fn+" has no arm for "+n, "")
		}
	}
	// encBlock writes the mode byte first
	if fd := p.Func("encBlock"); fd != nil {
		okFirst := false
		for _, st := range fd.Body.List {
			if es, ok := st.(*ast.ExprStmt); ok {
				if call, ok := es.X.(*ast.CallExpr); ok && strings.HasSuffix(p.CalleeName(call), ".WriteByte") && len(call.Args) == 1 {
					if id, ok := call.Args[0].(*ast.Ident); ok && len(fd.Type.Params.List) > 0 && p.ObjOf(id) == p.ObjOf(fd.Type.Params.List[0].Names[0]) {
						okFirst = true
					}
				}
				break
			}
		}
		c.Check(okFirst, "encBlock:type-byte", p.Pos(fd), "block starts with its type byte", "encBlock does not start the block with the mode byte", "")
	}
	// decBlock paths
	fd := p.Func("Serializer.decBlock")
	if fd == nil {
		return
	}
	sps, ok := p.SymPaths(fd, 20000, nil)
	if !ok {
		c.Undecided("decBlock:paths", p.Pos(fd), "too many paths")
		return
	}
	nNil := 0
	bad := map[string]bool{}
	for _, sp := range sps {
		if sp.RetNode == nil || !sp.Feasible() || len(sp.Ret) != 1 || !isNilAff(sp.Ret[0]) {
			continue
		}
		nNil++
		// size variable: first result of ReadUvarint
		sizeAtom := ""
		for _, ef := range sp.Effects {
			if ef.Kind == "store" && strings.Contains(ef.Val.String(), "ReadUvarint(") && strings.HasSuffix(ef.Val.String(), ".0") {
				sizeAtom = ef.Val.String()
			}
		}
		zero := false
		for _, cd := range sp.Conds {
			if cd.Other == "" && cd.Op == token.EQL && cd.L.String() == sizeAtom && cd.R.IsConst() && cd.R.K == 0 {
				zero = true
			}
		}
		readType, readBody := false, false
		for _, ef := range sp.Effects {
			if ef.Kind == "call" && strings.HasSuffix(ef.Target, "bytes.Buffer).ReadByte") {
				readType = true
			}
			if ef.Kind == "call" && strings.HasSuffix(ef.Target, "bytes.Buffer).Next") && len(ef.Args) == 1 {
				// argument = size - 1
				if ef.Args[0].Eq(affAtom(sizeAtom).Add(affK(1), -1)) {
					readBody = true
				}
			}
		}
		if !(zero || (readType && readBody)) {
			msg := "decBlock returns nil on a path that neither knows the declared block size to be 0 nor consumes the type byte and size−1 data bytes: the following header fields are read from the wrong offset"
			if !bad[msg] {
				bad[msg] = true
				c.Bad("decBlock:consumes-declared-size", p.Pos(sp.RetNode), msg+condsDesc(sp, 6), "a tape without strings (`[1,2,3]`): message block of size 1 with an empty destination")
			}
		}
	}
	if len(bad) == 0 {
		c.Ok("decBlock:consumes-declared-size", p.Pos(fd), fmt.Sprintf("all %d nil-return paths consume exactly the declared bytes (or the size is 0)", nNil))
	}
	c.MinCount("decBlock nil-return paths", nNil, 3)
	// every successful return has filled the whole destination (or the destination is empty): a destination that is
	// left as it was exposes bytes of the previous document when the Serializer or the target ParsedJson is reused
	nFill := 0
	fillBad := ""
	for _, sp := range sps {
		if sp.RetNode == nil || !sp.Feasible() || len(sp.Ret) != 1 || !isNilAff(sp.Ret[0]) {
			continue
		}
		empty, copied, spawned := false, false, false
		for _, cd := range sp.Conds {
			if cd.Other == "" && cd.Op == token.EQL && cd.L.String() == "len(P:dst)" && cd.R.IsConst() && cd.R.K == 0 {
				empty = true
			}
		}
		for _, ef := range sp.Effects {
			if ef.Kind == "go" {
				spawned = true
			}
			if ef.Kind == "call" && ef.Target == "copy" && len(ef.Args) == 2 && ef.Args[0].String() == "P:dst" {
				src := "len(" + ef.Args[1].String() + ")"
				for _, cd := range sp.Conds {
					if cd.Other == "" && cd.Op == token.EQL && ((cd.L.String() == src && cd.R.String() == "len(P:dst)") || (cd.R.String() == src && cd.L.String() == "len(P:dst)")) {
						copied = true
					}
				}
			}
		}
		nFill++
		if !(empty || copied || spawned) {
			fillBad = "decBlock returns nil on a path that neither fills dst nor knows it to be empty" + condsDesc(sp, 6)
		}
	}
	c.Check(fillBad == "" && nFill >= 3, "decBlock:fills-destination", p.Pos(fd), "every successful path fills the whole destination (copy of equal length, a decoder goroutine) or the destination is empty",
		fillBad+": the destination keeps its previous content — with a reused destination that is data of the previously deserialized document, with a fresh one NUL bytes", "a blob whose strings block is declared with N bytes but has block size 0, deserialized into a reused ParsedJson")
	// the decoder goroutines check the produced length
	nChecked := 0
	ast.Inspect(fd.Body, func(n ast.Node) bool {
		gs, ok := n.(*ast.GoStmt)
		if !ok {
			return true
		}
		lit, ok := gs.Call.Fun.(*ast.FuncLit)
		if !ok {
			return true
		}
		full := false
		for _, call := range callsIn(lit.Body) {
			if shortCallee(p.CalleeName(call)) == "io.ReadFull" && len(call.Args) == 2 && p.Str(call.Args[1]) == "dst" {
				full = true
			}
		}
		// want := len(dst) … want != len(dst)
		ast.Inspect(lit.Body, func(m ast.Node) bool {
			if be, ok := m.(*ast.BinaryExpr); ok && be.Op == token.NEQ {
				l, r := p.Str(be.X), p.Str(be.Y)
				if (l == "len(dst)" && r == "want") || (r == "len(dst)" && l == "want") {
					if def := resolveLocalIn(p, lit.Body, "want"); def == "len(dst)" {
						full = true
					}
				}
			}
			return true
		})
		c.Check(full, fmt.Sprintf("decBlock:goroutine#%d:length-checked", nChecked+1), p.Pos(lit), "the decoder goroutine fails unless exactly len(dst) bytes were produced", "a decoder goroutine of decBlock does not verify that the decompressed data has exactly the declared length", "a block that decompresses to fewer bytes than declared")
		nChecked++
		return true
	})
	c.MinCount("decBlock decoder goroutines", nChecked, 2)
	// unsigned guard before br.Next(int(size))
	checkUnsignedGuards(c, p, fd, "decBlock", 1)
	// the same for any length Deserialize itself cuts off the input (none on the reference tree)
	if dfd := p.Func("Serializer.Deserialize"); dfd != nil {
		checkUnsignedGuards(c, p, dfd, "Deserialize", 0)
	}
}

// resolveLocalIn returns the source text of the (single) `name := expr` definition inside body.
func resolveLocalIn(p *GoProg, body *ast.BlockStmt, name string) string {
	out := ""
	ast.Inspect(body, func(n ast.Node) bool {
		if as, ok := n.(*ast.AssignStmt); ok && as.Tok == token.DEFINE && len(as.Lhs) == 1 && len(as.Rhs) == 1 {
			if id, ok := as.Lhs[0].(*ast.Ident); ok && id.Name == name {
				out = p.Str(as.Rhs[0])
			}
		}
		return true
	})
	return out
}

// checkUnsignedGuards: every conversion int(E) of a uint64 read from the input that feeds a slice/Next/make length must be
// dominated by a comparison on the *unsigned* value that bounds it by a length.
func checkUnsignedGuards(c *Ctx, p *GoProg, fd *ast.FuncDecl, label string, min int) {
	fg := p.FGOf(fd)
	n := 0
	ast.Inspect(fd.Body, func(nd ast.Node) bool {
		call, ok := nd.(*ast.CallExpr)
		if !ok || !strings.HasSuffix(p.CalleeName(call), "bytes.Buffer).Next") || len(call.Args) != 1 {
			return true
		}
		if _, isConst := p.ConstInt(call.Args[0]); isConst {
			return true
		}
		conv, ok := ast.Unparen(call.Args[0]).(*ast.CallExpr)
		if !ok || p.CalleeName(conv) != "type:int" || len(conv.Args) != 1 {
			c.Undecided(label+":next-guard:"+p.Str(call), p.Pos(call), "the length handed to Next is not of the form int(<unsigned variable>): its bound cannot be established")
			return true
		}
		id, ok := ast.Unparen(conv.Args[0]).(*ast.Ident)
		subK := int64(0)
		if !ok {
			// int(v - K): the decrement written into the conversion; v must be known to be at least K here
			if be, isSub := ast.Unparen(conv.Args[0]).(*ast.BinaryExpr); isSub && be.Op == token.SUB {
				if vid, okv := ast.Unparen(be.X).(*ast.Ident); okv {
					if k, okk := p.ConstInt(be.Y); okk && k >= 1 {
						id, ok, subK = vid, true, k
					}
				}
			}
		}
		if !ok {
			c.Undecided(label+":next-guard:"+p.Str(call), p.Pos(call), "the length handed to Next is not of the form int(<unsigned variable>): its bound cannot be established")
			return true
		}
		n++
		obj := p.ObjOf(id)
		blk, _, okw := fg.Where(call)
		if !okw {
			c.Undecided(label+":next-guard", p.Pos(call), "call not in CFG")
			return true
		}
		guarded := false
		signedOnly := ""
		atLeast := int64(0) // what the dominating facts say about the variable's minimum
		for _, ef := range fg.DominatingFacts(blk) {
			for _, a := range atomsOf(ef) {
				be, ok := ast.Unparen(a.E).(*ast.BinaryExpr)
				if !ok {
					continue
				}
				op := be.Op
				if a.Neg {
					op = negateOp(op)
				}
				lid, okl := ast.Unparen(be.X).(*ast.Ident)
				k, okk := p.ConstInt(ast.Unparen(be.Y))
				if !okl || p.ObjOf(lid) != obj || !okk {
					continue
				}
				switch {
				case op == token.GEQ && k > atLeast:
					atLeast = k
				case op == token.GTR && k+1 > atLeast:
					atLeast = k + 1
				case op == token.NEQ && k == 0 && atLeast < 1:
					atLeast = 1
				}
			}
		}
		for _, ef := range fg.DominatingFacts(blk) {
			for _, a := range atomsOf(ef) {
				be, ok := ast.Unparen(a.E).(*ast.BinaryExpr)
				if !ok {
					continue
				}
				// holds-form: V <= bound   (i.e. V > bound negated, or V <= bound)
				op := be.Op
				if a.Neg {
					op = negateOp(op)
				}
				x, y := ast.Unparen(be.X), ast.Unparen(be.Y)
				if op == token.GEQ || op == token.GTR {
					x, y = y, x
					op = flipOp(op)
				}
				if op != token.LEQ && op != token.LSS {
					continue
				}
				// x must be the variable itself (unsigned) — not int(variable)
				if xid, ok := x.(*ast.Ident); ok && p.ObjOf(xid) == obj {
					if b, ok := p.Info.TypeOf(x).Underlying().(*types.Basic); ok && b.Info()&types.IsUnsigned != 0 && strings.Contains(p.Str(y), "Len()") {
						guarded = true
					}
				}
				if xc, ok := x.(*ast.CallExpr); ok && p.CalleeName(xc) == "type:int" && len(xc.Args) == 1 {
					if xid, ok := ast.Unparen(xc.Args[0]).(*ast.Ident); ok && p.ObjOf(xid) == obj {
						signedOnly = p.Str(be)
					}
				}
			}
		}
		// the bound must still hold at the call: the variable may only have been decremented since, and only where it is
		// known to be at least 1 (an unsigned decrement of 0 wraps to 2^64−1, which int() turns into −1)
		if guarded {
			ast.Inspect(fd.Body, func(m ast.Node) bool {
				switch x := m.(type) {
				case *ast.FuncLit:
					return false
				case *ast.IncDecStmt:
					xid, ok := ast.Unparen(x.X).(*ast.Ident)
					if !ok || p.ObjOf(xid) != obj {
						return true
					}
					if x.Tok != token.DEC {
						guarded = false
						signedOnly = "the variable is incremented after the guard"
						return true
					}
					b2, _, okb := fg.Where(x)
					pos1 := false
					if okb {
						for _, ef := range fg.DominatingFacts(b2) {
							for _, a := range atomsOf(ef) {
								be, ok := ast.Unparen(a.E).(*ast.BinaryExpr)
								if !ok {
									continue
								}
								op := be.Op
								if a.Neg {
									op = negateOp(op)
								}
								lx, ly := ast.Unparen(be.X), ast.Unparen(be.Y)
								lid, okl := lx.(*ast.Ident)
								k, okk := p.ConstInt(ly)
								if !okl || p.ObjOf(lid) != obj || !okk {
									continue
								}
								if (op == token.GEQ && k >= 1) || (op == token.GTR && k >= 0) || (op == token.NEQ && k == 0) {
									pos1 = true
								}
							}
						}
					}
					if !pos1 {
						guarded = false
						signedOnly = "`" + p.Str(x) + "` at " + p.Pos(x) + " is not preceded by a test that the value is at least 1: 0 wraps around and int() makes it −1"
					}
				case *ast.AssignStmt:
					if x.Tok == token.DEFINE {
						return true
					}
					for _, l := range x.Lhs {
						if lid, ok := ast.Unparen(l).(*ast.Ident); ok && p.ObjOf(lid) == obj {
							guarded = false
							signedOnly = "the variable is reassigned at " + p.Pos(x) + " after it was read from the input"
						}
					}
				}
				return true
			})
		}
		if guarded && subK > 0 && atLeast < subK {
			guarded = false
			signedOnly = fmt.Sprintf("`%s` is not preceded by a test that the value is at least %d: a smaller value wraps around and int() makes it negative", p.Str(conv.Args[0]), subK)
		}
		msg := "the length handed to " + p.Str(call) + " comes from the input and is not bounded by an unsigned comparison with the remaining input"
		if signedOnly != "" {
			if strings.Contains(signedOnly, "int(") && !strings.Contains(signedOnly, "wraps") {
				msg += " (the only guard, `" + signedOnly + "`, converts it to int first: values >= 2^63 become negative and pass)"
			} else {
				msg += " (" + signedOnly + ")"
			}
		}
		c.Check(guarded, label+":next-guard:"+p.Str(call), p.Pos(call), "bounded by an unsigned comparison with br.Len()", msg, "a 10-byte block-size varint of 2^63+1")
		return true
	})
	if min > 0 {
		c.MinCount(label+" buffer.Next calls", n, min)
	}
}

// C15.ser — per-call state of the Serializer is cleared before the tape loop starts.
func ruleSerReset(c *Ctx) {
	p := c.G()
	fd := p.Func("Serializer.Serialize")
	if fd == nil {
		c.Unresolved("Serializer.Serialize", "function not found")
		return
	}
	loop := mainSwitchLoop(p, fd)
	if loop == nil {
		c.Unresolved("Serialize:loop", "tape loop not found")
		return
	}
	fg := p.FGOf(fd)
	head := fg.LoopHead(loop)
	paths, ok := fg.EnumSegment(0, 0, map[int]bool{head: true}, 20000)
	if !ok {
		c.Undecided("Serialize:prefix-paths", p.Pos(fd), "too many paths")
		return
	}
	n := 0
	bad := map[string]bool{}
	for _, pa := range paths {
		if pa.Exit == nil || int(pa.Exit.Index) != head {
			continue
		}
		env := p.NewFuncEnv(fd)
		sp := p.ExecPath(pa, env)
		if !sp.Feasible() {
			continue
		}
		n++
		emptyOrTrunc := func(field string) bool {
			v := finalOf(env, field)
			a, _ := v.SingleAtom()
			if strings.HasSuffix(a, "[:0]") {
				return true
			}
			if mk, ok := env.makes[a]; ok && mk[0].IsConst() && mk[0].K == 0 {
				return true
			}
			// untouched but known empty on this path: len(field) <= 0
			for _, cd := range sp.Conds {
				if cd.Other == "" && cd.L.String() == "len("+field+")" && cd.R.IsConst() && cd.R.K == 0 && (cd.Op == token.LEQ || cd.Op == token.EQL) {
					return true
				}
			}
			return false
		}
		for _, fld := range []struct{ f, wit string }{
			{"R.valuesBuf", "Deserialize(A) then Serialize(B) on one Serializer: A's value bytes are prepended to B's"},
			{"R.stringBuf", "a second Serialize on one Serializer declares the first call's strings too"},
			{"R.sMsg", "stale compressed string block"},
		} {
			if !emptyOrTrunc(fld.f) {
				msg := fld.f + " is not empty/truncated when the tape loop starts (value " + finalOf(env, fld.f).String() + ")"
				if !bad[msg] {
					bad[msg] = true
					c.Bad("Serialize:reset:"+fld.f, p.Pos(loop), msg, fld.wit)
				}
			}
		}
		for _, loc := range []string{"off", "tagsOff", "rawValues", "rawTags"} {
			found := false
			for o, v := range env.vars {
				if varRoleName(o) == loc {
					found = true
					if !(v.IsConst() && v.K == 0) && !bad[loc] {
						bad[loc] = true
						c.Bad("Serialize:reset:"+loc, p.Pos(loop), "local "+loc+" is "+v.String()+" at loop entry, expected 0", "")
					}
				}
			}
			if !found && !bad["nf"+loc] {
				bad["nf"+loc] = true
				c.Undecided("Serialize:reset:"+loc, p.Pos(loop), "local not found at loop entry")
			}
		}
		// tagsBuf sized to the flush block
		tb := finalOf(env, "R.tagsBuf")
		if a, _ := tb.SingleAtom(); !strings.HasSuffix(a, "[:65536]") && !bad["tb"] {
			bad["tb"] = true
			c.Bad("Serialize:reset:R.tagsBuf", p.Pos(loop), "tagsBuf is not resliced to the flush block size before the loop: "+a, "")
		}
	}
	c.MinCount("paths to the tape loop", n, 1)
	if len(bad) == 0 {
		c.Ok("Serialize:reset", p.Pos(fd), fmt.Sprintf("valuesBuf, stringBuf, sMsg, counters and cursors are reset on all %d paths into the tape loop", n))
	}
	// Deserialize: every destination slice is resliced to the declared size before it is filled
	dfd := p.Func("Serializer.Deserialize")
	if dfd == nil {
		c.Unresolved("Serializer.Deserialize", "function not found")
		return
	}
	targets := map[string]bool{}
	ast.Inspect(dfd.Body, func(nd ast.Node) bool {
		as, ok := nd.(*ast.AssignStmt)
		if !ok || len(as.Lhs) != 1 || len(as.Rhs) != 1 {
			return true
		}
		sl, ok := ast.Unparen(as.Rhs[0]).(*ast.SliceExpr)
		if !ok || sl.Low != nil || sl.High == nil || !p.sameExpr(as.Lhs[0], sl.X) {
			return true
		}
		targets[p.Str(as.Lhs[0])] = true
		return true
	})
	for _, t := range []string{"dst.Tape", "dst.Strings.B", "dst.Message", "s.tagsBuf", "s.valuesBuf"} {
		c.Check(targets[t], "Deserialize:resize:"+t, p.Pos(dfd), "resliced to the declared size", t+" is not resliced to the size declared in the blob before it is filled: content of an earlier call leaks into the result", "reuse of the destination / Serializer with a smaller document")
	}
	// path-sensitive: on every path to a block decoder call, its destination was last assigned `X[:n]` with n the
	// size just read from the blob (so a reused buffer never keeps its old length)
	if loop := mainSwitchLoop(p, dfd); loop != nil {
		fg := p.FGOf(dfd)
		pre, ok := fg.EnumSegment(0, 0, map[int]bool{fg.LoopHead(loop): true}, 200000)
		if !ok || len(pre) == 0 {
			c.Undecided("Deserialize:resize-paths", p.Pos(dfd), "too many paths")
			return
		}
		badDest := map[string]string{}
		seenDest := map[string]bool{}
		for _, pa := range pre {
			env := p.NewFuncEnv(dfd)
			sp := p.ExecPath(pa, env)
			if !sp.Feasible() {
				continue
			}
			for ci, call := range sp.Effects {
				if call.Kind != "call" || call.Target != "Serializer.decBlock" || len(call.Args) < 2 {
					continue
				}
				// the destination expression as written at the call
				ce, _ := call.Node.(*ast.CallExpr)
				if ce == nil {
					if es, ok := call.Node.(*ast.ExprStmt); ok {
						ce, _ = es.X.(*ast.CallExpr)
					}
				}
				dest := call.Args[1].String()
				var last *SymEffect
				for k := 0; k < ci; k++ {
					ef := &sp.Effects[k]
					if ef.Kind == "store" && ef.Index == nil && ef.Val.String() == dest {
						last = ef
					}
				}
				name := dest
				if last != nil {
					name = last.Target
				}
				seenDest[name] = true
				okSz := false
				if last != nil {
					v := last.Val.String()
					if i := strings.LastIndex(v, "[:"); i >= 0 && strings.HasSuffix(v, "]") && strings.Contains(v[i:], "ReadUvarint(") {
						okSz = true
					}
				}
				if !okSz {
					if _, dup := badDest[name]; !dup {
						badDest[name] = "the buffer handed to decBlock is " + trunc(dest, 80) + condsDesc(sp, 6)
					}
				}
				_ = ce
			}
		}
		var names []string
		for n := range seenDest {
			names = append(names, n)
		}
		for _, n := range sortedStrings(names) {
			msg, isBad := badDest[n]
			c.Check(!isBad, "Deserialize:resize-on-path:"+n, p.Pos(dfd), "last assigned X[:declared size] on every path to its decoder", "Deserialize: on some path "+n+" is filled without having been resliced to the size read from the blob: "+msg+" — a reused buffer keeps the length of an earlier document and the block decoder rejects or misplaces the data", "Deserialize into a destination that holds a longer string buffer (after SetString, or after Parse in copy mode)")
		}
		c.MinCount("decoder destinations in Deserialize", len(names), 4)
	}
}

// C19.join — every goroutine a block decoder may have started is awaited on every return path.
func ruleJoin(c *Ctx) {
	p := c.G()
	fd := p.Func("Serializer.Deserialize")
	if fd == nil {
		c.Unresolved("Serializer.Deserialize", "function not found")
		return
	}
	// decBlock launches goroutines only after wg.Add(1) with a deferred wg.Done()
	db := p.Func("Serializer.decBlock")
	if db != nil {
		nGo := 0
		okGo := true
		ast.Inspect(db.Body, func(nd ast.Node) bool {
			gs, ok := nd.(*ast.GoStmt)
			if !ok {
				return true
			}
			nGo++
			lit, ok := gs.Call.Fun.(*ast.FuncLit)
			if !ok {
				okGo = false
				return true
			}
			hasDone := false
			if len(lit.Body.List) > 0 {
				if ds, ok := lit.Body.List[0].(*ast.DeferStmt); ok && strings.HasSuffix(p.CalleeName(ds.Call), "sync.WaitGroup).Done") {
					hasDone = true
				}
			}
			// wg.Add(1) immediately before
			hasAdd := false
			if blk, ok := p.Parent(gs).(*ast.CaseClause); ok {
				for i, st := range blk.Body {
					if st == ast.Stmt(gs) && i > 0 {
						if es, ok := blk.Body[i-1].(*ast.ExprStmt); ok {
							if call, ok := es.X.(*ast.CallExpr); ok && strings.HasSuffix(p.CalleeName(call), "sync.WaitGroup).Add") {
								hasAdd = true
							}
						}
					}
				}
			}
			if !hasDone || !hasAdd {
				okGo = false
			}
			return true
		})
		c.Check(okGo && nGo >= 2, "decBlock:goroutines", p.Pos(db), "each decoder goroutine is registered with wg.Add(1) and releases with a deferred wg.Done()", "a decoder goroutine is started without wg.Add(1)/deferred wg.Done(): it cannot be awaited", "")
	} else {
		c.Unresolved("Serializer.decBlock", "function not found")
	}
	fg := p.FGOf(fd)
	// Compositional analysis: (A) every path from the entry to the head of the tape loop (or to a return before it),
	// (B) every path of one loop iteration from a fresh symbolic state — back to the head, or out through a return
	// inside the body or after the loop.  Loop iterations contain no launch/wait/defer event (checked), so the
	// decoder state at the head is the state after (A) whatever the number of iterations; a whole path is one (A)
	// summary followed by one returning (B) path.
	loop := mainSwitchLoop(p, fd)
	if loop == nil {
		c.Unresolved("Deserialize:tape-loop", "main tag loop not found")
		return
	}
	head := fg.LoopHead(loop)
	pre, ok1 := fg.EnumSegment(0, 0, map[int]bool{head: true}, 200000)
	seg, ok2 := fg.EnumSegment(head, 0, map[int]bool{head: true}, 200000)
	if !ok1 || !ok2 {
		c.Undecided("Deserialize:paths", p.Pos(fd), "too many paths")
		return
	}
	type jevt struct {
		at         int
		kind       string // launch | failed | wait | defer | slotnil
		a, b, slot string
	}
	eventsOf := func(sp *SymPath, env *SymEnv) []jevt {
		var evts []jevt
		for _, ef := range sp.Effects {
			switch {
			case ef.Kind == "call" && ef.Target == "Serializer.decBlock" && len(ef.Args) >= 4:
				evts = append(evts, jevt{ef.At, "launch", atomBase(strings.TrimPrefix(ef.Args[2].String(), "&")), ef.Val.String(), atomBase(strings.TrimPrefix(ef.Args[3].String(), "&"))})
			case ef.Kind == "call" && strings.HasSuffix(ef.Target, "sync.WaitGroup).Wait"):
				evts = append(evts, jevt{ef.At, "wait", atomBase(ef.Base), "", ""})
			case ef.Kind == "defer" && strings.HasSuffix(ef.Target, "sync.WaitGroup).Wait"):
				if ds, ok := ef.Node.(*ast.DeferStmt); ok {
					if sel, ok := ds.Call.Fun.(*ast.SelectorExpr); ok {
						if path, ok := env.lvalPath(sel.X); ok {
							evts = append(evts, jevt{ef.At, "defer", atomBase(path), "", ""})
						}
					}
				}
			}
		}
		for _, cd := range sp.Conds {
			if cd.Other != "" {
				continue
			}
			la, _ := cd.L.SingleAtom()
			ra, _ := cd.R.SingleAtom()
			// err != nil right after a decBlock call: that call launched nothing
			if cd.Op == token.NEQ && strings.Contains(la, "decBlock(") && ra == "nil" {
				evts = append(evts, jevt{cd.At, "failed", "", la, ""})
			}
			if cd.Op == token.EQL && ra == "nil" && la != "" && !strings.Contains(la, "(") {
				evts = append(evts, jevt{cd.At, "slotnil", "", "", atomBase(la)})
			}
		}
		sort.SliceStable(evts, func(i, j int) bool { return evts[i].at < evts[j].at })
		return evts
	}
	// decoder state
	type jstate struct {
		pending  map[string]string // wg -> launching call atom
		deferred map[string]bool
		slotWg   map[string]string // slot -> wg of its decoder (launched and not failed)
		slotCall map[string]string
		waited   map[string]bool // slot: its wg was waited for after the launch
		checked  map[string]bool // slot: compared with nil after that wait
	}
	newState := func() *jstate {
		return &jstate{map[string]string{}, map[string]bool{}, map[string]string{}, map[string]string{}, map[string]bool{}, map[string]bool{}}
	}
	cloneState := func(a *jstate) *jstate {
		b := newState()
		for k, v := range a.pending {
			b.pending[k] = v
		}
		for k, v := range a.deferred {
			b.deferred[k] = v
		}
		for k, v := range a.slotWg {
			b.slotWg[k] = v
		}
		for k, v := range a.slotCall {
			b.slotCall[k] = v
		}
		for k, v := range a.waited {
			b.waited[k] = v
		}
		for k, v := range a.checked {
			b.checked[k] = v
		}
		return b
	}
	apply := func(st *jstate, evts []jevt) {
		for _, e := range evts {
			switch e.kind {
			case "launch":
				st.pending[e.a] = e.b
				st.slotWg[e.slot] = e.a
				st.slotCall[e.slot] = e.b
				st.waited[e.slot], st.checked[e.slot] = false, false
			case "failed":
				for wg, call := range st.pending {
					if call == e.b {
						delete(st.pending, wg)
					}
				}
				for sl, call := range st.slotCall {
					if call == e.b {
						delete(st.slotWg, sl)
						delete(st.slotCall, sl)
					}
				}
			case "wait":
				delete(st.pending, e.a)
				for sl, wg := range st.slotWg {
					if wg == e.a {
						st.waited[sl] = true
					}
				}
			case "defer":
				st.deferred[e.a] = true
			case "slotnil":
				if st.waited[e.slot] {
					st.checked[e.slot] = true
				}
			}
		}
	}
	stateKey := func(st *jstate) string {
		var ks []string
		for k, v := range st.pending {
			ks = append(ks, "p:"+k+"="+v)
		}
		for k := range st.deferred {
			ks = append(ks, "d:"+k)
		}
		for k, v := range st.slotWg {
			ks = append(ks, fmt.Sprintf("s:%s=%s w%v c%v", k, v, st.waited[k], st.checked[k]))
		}
		sort.Strings(ks)
		return strings.Join(ks, ";")
	}
	bad := map[string]bool{}
	nRet, nNilRet := 0, 0
	slots := map[string]bool{}
	slotBad := map[string]string{}
	atReturn := func(st *jstate, sp *SymPath) {
		nRet++
		for sl := range st.slotWg {
			slots[sl] = true
		}
		if len(sp.Ret) >= 1 && isNilAff(sp.Ret[len(sp.Ret)-1]) {
			nNilRet++
			for sl := range st.slotWg {
				if !st.checked[sl] && slotBad[sl] == "" {
					slotBad[sl] = p.Pos(sp.RetNode)
				}
			}
		}
		for wg := range st.pending {
			if st.deferred[wg] {
				continue
			}
			site := "Deserialize:return-without-wait:" + wg
			msg := "Deserialize can return while a block-decoder goroutine registered on " + wg + " may still be writing into the destination (no " + wg + ".Wait() and no deferred Wait on this path)"
			if !bad[site] {
				bad[site] = true
				c.Bad(site, p.Pos(sp.RetNode), msg+condsDesc(sp, 8), "a blob whose strings block is S2/zstd compressed and whose next header field is truncated")
			}
		}
	}
	headStates := map[string]*jstate{}
	for _, pa := range pre {
		env := p.NewFuncEnv(fd)
		sp := p.ExecPath(pa, env)
		if !sp.Feasible() {
			continue
		}
		st := newState()
		apply(st, eventsOf(sp, env))
		if sp.RetNode != nil {
			atReturn(st, sp)
			continue
		}
		headStates[stateKey(st)] = st
	}
	c.Unit("deserialize_head_states", len(headStates))
	c.MinCount("decoder states at the tape loop head", len(headStates), 1)
	nIter := 0
	for _, pa := range seg {
		env := p.NewFuncEnv(fd)
		sp := p.ExecPath(pa, env)
		if !sp.Feasible() {
			continue
		}
		evts := eventsOf(sp, env)
		if sp.RetNode == nil {
			nIter++
			for _, e := range evts {
				if e.kind != "slotnil" {
					c.Undecided("Deserialize:loop-iteration-event", p.Pos(fd), "a tape loop iteration contains a "+e.kind+" event: the compositional join analysis does not apply")
				}
			}
			continue
		}
		for _, hs := range headStates {
			st := cloneState(hs)
			apply(st, evts)
			atReturn(st, sp)
		}
	}
	c.Unit("deserialize_pre_paths", len(pre))
	c.Unit("deserialize_iteration_paths", len(seg))
	c.MinCount("tape loop iterations analysed", nIter, 10)
	c.MinCount("Deserialize returning paths", nRet, 20)
	c.MinCount("Deserialize successful paths", nNilRet, 1)
	c.MinCount("decoder error slots", len(slots), 4)
	var slotNames []string
	for sl := range slots {
		slotNames = append(slotNames, sl)
	}
	sort.Strings(slotNames)
	for _, sl := range slotNames {
		pos, isBad := slotBad[sl]
		if !isBad {
			pos = p.Pos(fd)
		}
		c.Check(!isBad, "Deserialize:errslot:"+strings.TrimPrefix(sl, "L:"), pos, "checked after the decoder was awaited on every successful return",
			"Deserialize returns nil without looking at "+strings.TrimPrefix(sl, "L:")+" (after waiting for its decoder): a block that fails to decompress is reported as success, and the destination keeps whatever it held — zeroes, or with a reused destination the bytes of the previously deserialized document",
			"a blob whose S2/zstd-compressed message block is corrupt, deserialized into a reused ParsedJson")
	}
	if len(bad) == 0 {
		c.Ok("Deserialize:join", p.Pos(fd), fmt.Sprintf("every decoder goroutine is awaited on all %d returning paths", nRet))
	}
	// Serialize: wg.Add(n) / n goroutines / wg.Wait before the buffers are read
	sfd := p.Func("Serializer.Serialize")
	if sfd != nil {
		nGo := 0
		var lastGo, wait, add token.Pos
		var addN int64 = -1
		ast.Inspect(sfd.Body, func(nd ast.Node) bool {
			switch x := nd.(type) {
			case *ast.GoStmt:
				nGo++
				lastGo = x.Pos()
				return false
			case *ast.CallExpr:
				n := p.CalleeName(x)
				if strings.HasSuffix(n, "sync.WaitGroup).Wait") && lastGo != token.NoPos && wait == token.NoPos && x.Pos() > lastGo {
					wait = x.Pos()
				}
				if strings.HasSuffix(n, "sync.WaitGroup).Add") && len(x.Args) == 1 {
					if v, ok := p.ConstInt(x.Args[0]); ok {
						addN = v
						add = x.Pos()
					}
				}
			}
			return true
		})
		c.Check(nGo > 0 && int64(nGo) == addN && add < lastGo && wait > lastGo, "Serialize:join", p.Pos(sfd), fmt.Sprintf("wg.Add(%d), %d goroutines, wg.Wait() before the compressed buffers are read", addN, nGo),
			fmt.Sprintf("Serialize starts %d compressor goroutines but registers %d / does not wait for them before assembling the output", nGo, addN), "")
	}
}

// atomBase strips the "@callee#n" suffix a variable's atom gets when its address was handed to a call.
func atomBase(a string) string {
	if i := strings.Index(a, "@"); i >= 0 {
		return a[:i]
	}
	return a
}
