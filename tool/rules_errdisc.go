package main

import (
	"fmt"
	"go/token"
	"strings"
)

func init() {
	reg("C11.errdisc", ruleDeserializeErrors)
	f := "parsed_serialize.go"
	regWitness(
		Witness{Rule: "C11.errdisc", Name: "tape-size-error-inverted", File: f, After: "\t// Tape size\n", Old: "if ts, err := binary.ReadUvarint(br); err != nil {", New: "if ts, err := binary.ReadUvarint(br); err == nil {", Breaks: "every valid blob is refused with a nil error"},
		Witness{Rule: "C11.errdisc", Name: "newer-version-accepted", File: f, Old: "} else if v > serializedVersion {", New: "} else if v < serializedVersion {", Breaks: "blobs of a newer format version are decoded with this layout, older ones refused"},
		Witness{Rule: "C11.errdisc", Name: "nil-destination", File: f, After: "func (s *Serializer) Deserialize(", Old: "\tif dst == nil {\n\t\tdst = &ParsedJson{}\n\t}\n", New: "", Breaks: "Deserialize(src, nil) dereferences nil"},
	)
}

// C11.errdisc — error discipline of the Deserialize header: every read that can fail (version byte, size fields, the
// four blocks) is followed by a test of its error; a failed read returns that error at once, nothing is read after it;
// the version must not exceed the writer's; the declared total must not exceed what is there; a nil destination is
// replaced before use.
func ruleDeserializeErrors(c *Ctx) {
	p := c.G()
	fd := p.Func("Serializer.Deserialize")
	if fd == nil {
		c.Unresolved("Serializer.Deserialize", "function not found")
		return
	}
	loop := mainSwitchLoop(p, fd)
	if loop == nil {
		c.Unresolved("Deserialize:tape-loop", "main tag loop not found")
		return
	}
	fg := p.FGOf(fd)
	pre, ok := fg.EnumSegment(0, 0, map[int]bool{fg.LoopHead(loop): true}, 200000)
	if !ok || len(pre) == 0 {
		c.Undecided("Deserialize:header-paths", p.Pos(fd), "too many paths")
		return
	}
	fallible := func(ef SymEffect) (string, bool) {
		if ef.Kind != "call" {
			return "", false
		}
		switch {
		case strings.HasSuffix(ef.Target, "bytes.Buffer).ReadByte"), ef.Target == "encoding/binary.ReadUvarint":
			return ef.Val.String() + ".1", true
		case ef.Target == "Serializer.decBlock":
			return ef.Val.String(), true
		}
		return "", false
	}
	bad := map[string]string{}
	note := func(site, msg string, sp *SymPath) {
		if _, dup := bad[site]; !dup {
			bad[site] = msg + condsDesc(sp, 6)
		}
	}
	nReach, nFail := 0, 0
	maxCalls := 0
	for _, pa := range pre {
		env := p.NewFuncEnv(fd)
		sp := p.ExecPath(pa, env)
		if !sp.Feasible() {
			continue
		}
		var errs []string
		for _, ef := range sp.Effects {
			if e, ok := fallible(ef); ok {
				errs = append(errs, e)
			}
		}
		if len(errs) > maxCalls {
			maxCalls = len(errs)
		}
		failed := ""
		for i, e := range errs {
			isSet, isNil := hasCond(sp, e, token.NEQ, "nil"), hasCond(sp, e, token.EQL, "nil")
			switch {
			case !isSet && !isNil:
				note("unchecked", "the error of a header read is not examined ("+trunc(e, 80)+")", sp)
			case isSet:
				failed = e
				if i != len(errs)-1 {
					note("read-after-failure", "reading goes on after a failed read", sp)
				}
			}
		}
		if failed != "" {
			nFail++
			if sp.RetNode == nil || len(sp.Ret) != 2 || !strings.Contains(sp.Ret[1].String(), failed) {
				r := ""
				if len(sp.Ret) == 2 {
					r = sp.Ret[1].String()
				}
				note("not-returned", "a failed header read does not return its error (returns "+trunc(r, 100)+" for "+trunc(failed, 100)+")", sp)
			}
			continue
		}
		if sp.RetNode != nil {
			// a return without a failed read: version / total-size / decoder errors — must carry an error
			if len(sp.Ret) == 2 && isNilAff(sp.Ret[1]) {
				note("early-success", "the header code returns success before the tape was rebuilt", sp)
			}
			continue
		}
		nReach++
		// paths that reach the tape loop: version accepted and total size plausible, destination present
		verOK := false
		sizeOK := false
		for _, cd := range sp.Conds {
			if cd.Other != "" || !strings.Contains(cd.L.String(), "ReadByte()") && !strings.Contains(cd.L.String(), "ReadUvarint(") {
				continue
			}
			if strings.HasSuffix(cd.L.String(), ".0") && cd.Op == token.LEQ && cd.R.IsConst() && strings.Contains(cd.L.String(), "ReadByte()") {
				ver, _ := p.PkgConstInt("serializedVersion")
				verOK = cd.R.K == ver
			}
			if strings.HasSuffix(cd.L.String(), ".0") && cd.Op == token.LEQ && strings.Contains(cd.R.String(), "bytes.Buffer).Len()") {
				sizeOK = true
			}
		}
		if !verOK {
			note("version", "the tape loop is reached without version <= serializedVersion having been established", sp)
		}
		if !sizeOK {
			note("total", "the tape loop is reached without the declared total having been compared with the bytes present", sp)
		}
		dstNil, dstSet := hasCond(sp, "P:dst", token.EQL, "nil"), hasCond(sp, "P:dst", token.NEQ, "nil")
		fresh := false
		for _, ef := range sp.Effects {
			if ef.Kind == "store" && ef.Target == "P:dst" && strings.HasPrefix(ef.Val.String(), "&lit:ParsedJson{") {
				fresh = true
			}
		}
		if dstNil == dstSet || dstNil != fresh {
			note("destination", "a nil destination is not replaced by a fresh ParsedJson (or a supplied one is)", sp)
		}
	}
	if maxCalls < 10 || nReach < 2 || nFail < 10 {
		bad["shape"] = fmt.Sprintf("expected >= 10 fallible reads on the longest path, paths reaching the loop and failing paths; got %d/%d/%d", maxCalls, nReach, nFail)
	}
	for _, s := range []string{"unchecked", "read-after-failure", "not-returned", "early-success", "version", "total", "destination", "shape"} {
		msg, isBad := bad[s]
		c.Check(!isBad, "Deserialize:header:"+s, p.Pos(fd), "holds on every path through the header", "Serializer.Deserialize: "+msg, "a truncated blob / a blob of a newer version / Deserialize(src, nil)")
	}
	c.Unit("deserialize_header_paths", len(pre))
}
