package main

import (
	"fmt"
	"go/types"
	"regexp"
	"sort"
	"strings"
)

func init() {
	reg("C06.regs", ruleAsmRegs)
	regWitness(
		Witness{Rule: "C06.regs", Name: "quote-bits-and-error-mask-swapped", File: "find_structural_bits_amd64.s", After: "TEXT ·_find_structural_bits_in_slice(SB)", Old: "\tMOVQ quote_bits+32(FP), R8\n\tMOVQ error_mask+40(FP), R9\n", New: "\tMOVQ error_mask+40(FP), R8\n\tMOVQ quote_bits+32(FP), R9\n", Breaks: "the AVX2 kernel accumulates control-character errors in the quote bits and vice versa"},
		Witness{Rule: "C06.regs", Name: "high-half-not-loaded", File: "find_structural_bits_amd64.s", After: "loop:\n", Old: "\tVMOVDQU 0x20(DI)(AX*1), Y9 // load high 32-bytes\n", New: "", Breaks: "the AVX2 kernel classifies bytes 32..63 of every block from the previous block"},
		Witness{Rule: "C06.regs", Name: "position-not-stored-back", File: "find_structural_bits_avx512_amd64.s", After: "TEXT ·_find_structural_bits_in_slice_avx512(SB)", Old: "\tMOVQ R10, (R12)                            // *position = R10\n", New: "", Breaks: "the Go driver never sees the position advance (AVX-512 only)"},
		Witness{Rule: "C06.regs", Name: "wrong-frame-offset", File: "find_structural_bits_avx512_amd64.s", After: "TEXT ·_find_structural_bits_in_slice_avx512(SB)", Old: "MOVQ carried+72(FP), R11", New: "MOVQ carried+80(FP), R11", Breaks: "the carried bits are read from the position variable"},
	)
}

var reFP = regexp.MustCompile(`^([A-Za-z_][A-Za-z0-9_]*)\+(\d+)\(FP\)$`)

// asmSrc tracks, per register, where its current value came from on the linear walk of a driver.
type asmSrc struct {
	at   int
	desc string
}

// callSpec: the register interface of one internal routine as used by the drivers (read off the routines, confirmed by
// reading; the live-in analysis below checks that the table covers every general register the routine reads).
var asmCallSpec = map[string]map[string]string{
	"__find_odd_backslash_sequences":           {"DX": "param:p3"},
	"__find_odd_backslash_sequences_avx512":    {"DX": "param:p3"},
	"__find_quote_mask_and_bits":               {"DX": "ret:__find_odd_backslash_sequences", "CX": "param:prev_iter_inside_quote", "R8": "param:quote_bits", "R9": "param:error_mask"},
	"__find_quote_mask_and_bits_avx512":        {"DX": "ret:__find_odd_backslash_sequences_avx512", "CX": "param:prev_iter_inside_quote"},
	"__find_whitespace_and_structurals":        {"DX": "param:whitespace", "CX": "param:structurals_in"},
	"__find_whitespace_and_structurals_avx512": {},
	"__finalize_structurals":                   {"DI": "*param:structurals_in", "SI": "*param:whitespace", "DX": "ret:__find_quote_mask_and_bits", "CX": "*param:quote_bits", "R8": "param:prev_iter_ends_pseudo_pred"},
	"__finalize_structurals_avx512":            {"DX": "ret:__find_quote_mask_and_bits_avx512", "R8": "param:prev_iter_ends_pseudo_pred"},
	"__find_newline_delimiters":                {"DX": "ret:__find_quote_mask_and_bits"},
	"__find_newline_delimiters_avx512":         {"DX": "ret:__find_quote_mask_and_bits_avx512"},
	"__flatten_bits_incremental":               {"DI": "param:indexes", "BX": "*param:index", "DX": "*param:carried", "R10": "*param:position", "AX": "ret:__finalize_structurals*"},
}

// registers a routine appears to read only because an instruction that defines them is byte-encoded (WORD/BYTE) or has
// a false dependency
var asmLiveNoise = map[string]map[string]string{
	"__find_odd_backslash_sequences":        {"R9": "defined by the byte-encoded `mov r9, [rdx]`"},
	"__find_odd_backslash_sequences_avx512": {"R9": "defined by the byte-encoded `mov r9, [rdx]`"},
}

func isGP(r string) bool {
	switch r {
	case "AX", "BX", "CX", "DX", "SI", "DI", "R8", "R9", "R10", "R11", "R12", "R13", "R14", "R15":
		return true
	}
	return false
}

// C06.regs — the glue of the two stage-1 drivers: every `name+off(FP)` operand names a parameter of the Go declaration at
// its real frame offset; at every call of an internal routine each general register the routine reads was set up after
// the previous call from the right source (parameter, pointee of a parameter, result of the right earlier routine);
// the 64 input bytes are loaded from buf+AX into the vector registers before the first routine; index, carried and
// position are stored back through their own pointers after the flatten step; both drivers agree on all of it.
func ruleAsmRegs(c *Ctx) {
	a := c.Asm()
	p := c.G()
	drivers := []struct{ asmName, goName, vec string }{
		{"_find_structural_bits_in_slice", "_find_structural_bits_in_slice", "Y"},
		{"_find_structural_bits_in_slice_avx512", "_find_structural_bits_in_slice_avx512", "Z"},
	}
	for _, d := range drivers {
		f := a.Funcs[d.asmName]
		if f == nil {
			c.Unresolved(d.asmName, "assembly routine not found")
			continue
		}
		fo, _ := p.Pkg.Types.Scope().Lookup(d.goName).(*types.Func)
		if fo == nil {
			c.Unresolved(d.goName, "Go declaration not found")
			continue
		}
		sig := fo.Type().(*types.Signature)
		offs := map[string]int{}
		off := 0
		for i := 0; i < sig.Params().Len(); i++ {
			offs[sig.Params().At(i).Name()] = off
			off += 8 // every parameter is a pointer or a 64-bit integer (checked below)
			if sz := p.Pkg.TypesSizes.Sizeof(sig.Params().At(i).Type()); sz != 8 {
				c.Undecided(d.asmName+":frame", f.File, "parameter "+sig.Params().At(i).Name()+" is not 8 bytes wide")
			}
		}
		for i := 0; i < sig.Results().Len(); i++ {
			offs[sig.Results().At(i).Name()] = off
			off += 8
		}
		// (A) frame operands
		nFP := 0
		badFP := ""
		for _, in := range f.Instrs {
			for _, arg := range in.Args {
				if !strings.HasSuffix(arg, "(FP)") {
					continue
				}
				m := reFP.FindStringSubmatch(arg)
				if m == nil {
					badFP = fmt.Sprintf("line %d: frame operand %s is not name+offset(FP)", in.Line, arg)
					continue
				}
				nFP++
				want, ok := offs[m[1]]
				if !ok {
					badFP = fmt.Sprintf("line %d: %s is not a parameter of %s", in.Line, m[1], d.goName)
				} else if fmt.Sprint(want) != m[2] {
					badFP = fmt.Sprintf("line %d: %s is at frame offset %d, the routine uses %s", in.Line, m[1], want, m[2])
				}
			}
		}
		c.Check(badFP == "" && nFP >= 15, d.asmName+":frame", f.File, "every frame operand names a parameter at its frame offset", d.asmName+": "+badFP, "any document")

		// (B) linear walk: sources of registers at calls
		src := map[string]asmSrc{}
		var stack []asmSrc
		lastCall := -1
		prevCallee := ""
		badCall := map[string]string{}
		nCalls := 0
		describe := func(arg string) string {
			if m := reFP.FindStringSubmatch(arg); m != nil {
				return "param:" + m[1]
			}
			if isMemOperand(arg) {
				rs := regsIn(arg)
				if len(rs) == 1 && strings.HasPrefix(arg, "(") {
					return "*" + src[rs[0]].desc
				}
				return "mem:" + arg
			}
			if rs := regsIn(arg); len(rs) == 1 && rs[0] == arg {
				return src[arg].desc
			}
			return "imm:" + arg
		}
		var vecLoads []string
		stores := map[string]string{}
		for i, in := range f.Instrs {
			if in.Label != "" {
				if in.Label == "loop" || in.Label == "masking" {
					vecLoads = append(vecLoads, "@"+in.Label)
				}
				continue
			}
			switch {
			case in.Op == "CALL":
				callee := strings.TrimSuffix(strings.TrimPrefix(in.Args[0], "·"), "(SB)")
				cf := a.Funcs[callee]
				spec, known := asmCallSpec[callee]
				if cf == nil || strings.HasPrefix(callee, "__init_") {
					lastCall = i
					continue
				}
				nCalls++
				if !known {
					badCall[callee] = "no interface recorded for this routine"
					lastCall, prevCallee = i, callee
					continue
				}
				for _, r := range asmLiveIn(cf) {
					if !isGP(r) {
						continue
					}
					if _, noise := asmLiveNoise[callee][r]; noise {
						continue
					}
					want, inTable := spec[r]
					if !inTable {
						badCall[callee] = "reads " + r + ", which the recorded interface does not mention"
						continue
					}
					got := src[r]
					fresh := got.at > lastCall || strings.HasPrefix(got.desc, "ret:"+prevCallee)
					okSrc := got.desc == want || strings.HasSuffix(want, "*") && strings.HasPrefix(got.desc, strings.TrimSuffix(want, "*"))
					if !fresh || !okSrc {
						badCall[callee] = fmt.Sprintf("line %d: %s holds %q (set at instruction %d, previous call at %d), expected %s", in.Line, r, got.desc, got.at, lastCall, want)
					}
				}
				// results: AX (and BX for the newline routine) now come from this routine
				for r := range asmWrites(cf) {
					if isGP(r) {
						src[r] = asmSrc{i, "ret:" + callee + "." + r}
					}
				}
				if asmWrites(cf)["AX"] {
					src["AX"] = asmSrc{i, "ret:" + callee}
				}
				lastCall, prevCallee = i, callee
			case in.Op == "PUSHQ":
				stack = append(stack, src[in.Args[0]])
			case in.Op == "POPQ":
				if len(stack) > 0 {
					s := stack[len(stack)-1]
					stack = stack[:len(stack)-1]
					src[in.Args[0]] = asmSrc{i, s.desc}
				}
			case in.Op == "MOVQ" && len(in.Args) == 2:
				dst := in.Args[1]
				if isMemOperand(dst) && !strings.HasSuffix(dst, "(FP)") {
					rs := regsIn(dst)
					if len(rs) == 1 {
						stores[src[rs[0]].desc] = src[in.Args[0]].desc + "←" + in.Args[0]
					}
					continue
				}
				if rs := regsIn(dst); len(rs) == 1 && rs[0] == dst {
					src[dst] = asmSrc{i, describe(in.Args[0])}
				}
			case strings.HasPrefix(in.Op, "VMOVDQU") && len(in.Args) == 2:
				if isMemOperand(in.Args[0]) {
					b := ""
					if rs := regsIn(in.Args[0]); len(rs) >= 1 {
						b = src[rs[0]].desc
					}
					vecLoads = append(vecLoads, in.Args[1]+"←"+b+":"+in.Args[0])
				} else {
					vecLoads = append(vecLoads, in.Args[1]+"←"+in.Args[0])
				}
			default:
				_, ws := asmRW(in)
				r, _ := asmRW(in)
				for _, w := range ws {
					if !isGP(w) {
						continue
					}
					keep := false
					for _, x := range r {
						if x == w {
							keep = true // read-modify-write keeps the origin
						}
					}
					if keep {
						src[w] = asmSrc{i, src[w].desc}
					} else {
						src[w] = asmSrc{i, "op:" + in.Op}
					}
				}
			}
		}
		var cs []string
		for k := range badCall {
			cs = append(cs, k)
		}
		sort.Strings(cs)
		msg := ""
		for _, k := range cs {
			msg += k + ": " + badCall[k] + "; "
		}
		c.Check(len(badCall) == 0 && nCalls >= 6, d.asmName+":call-registers", f.File, fmt.Sprintf("%d internal calls: every general register read by the routine is set up from its recorded source after the previous call", nCalls), d.asmName+": "+msg, "any document (one CPU family only)")

		// (C) vector input
		loads := strings.Join(vecLoads, " ")
		var wantLoop, wantMask []string
		if d.vec == "Y" {
			wantLoop = []string{"@loop Y8←param:buf:(DI)(AX*1) Y9←param:buf:0x20(DI)(AX*1)"}
			wantMask = []string{"@masking Y8←param:buf:(DI)(AX*1)", "Y9←Y13", "Y9←param:buf:0x20(DI)(AX*1)"}
		} else {
			wantLoop = []string{"@loop Z8←param:buf:(DI)(AX*1)"}
			wantMask = []string{"@masking Y8←param:buf:(DI)(AX*1)", "Y9←Y13", "Y9←param:buf:0x20(DI)(AX*1)"}
		}
		okVec := true
		loopPart, maskPart := "", ""
		if i := strings.Index(loads, "@loop"); i >= 0 {
			loopPart = loads[i:]
			if j := strings.Index(loopPart, "@masking"); j >= 0 {
				maskPart = loopPart[j:]
				loopPart = loopPart[:j]
			}
		}
		for _, w := range wantLoop {
			if !strings.Contains(loopPart, strings.TrimPrefix(w, "@loop ")) {
				okVec = false
			}
		}
		for _, w := range wantMask {
			if !strings.Contains(maskPart, strings.TrimPrefix(w, "@masking ")) {
				okVec = false
			}
		}
		c.Check(okVec, d.asmName+":input-block", f.File, "the 64-byte block is loaded from buf+AX (both halves; tail: low half always, high half or white space)", d.asmName+": the input block is not loaded as expected ("+trunc(loads, 200)+")", "any document")

		// (C2) constant registers of the AVX-512 routines are set by init routines called before the first block
		if d.vec == "Z" {
			inited := map[string]bool{}
			firstWork := -1
			for i, in := range f.Instrs {
				if in.Op != "CALL" {
					continue
				}
				callee := strings.TrimSuffix(strings.TrimPrefix(in.Args[0], "·"), "(SB)")
				if strings.HasPrefix(callee, "__init_") {
					if firstWork >= 0 {
						continue // an init after work started does not count
					}
					if cf := a.Funcs[callee]; cf != nil {
						for r := range asmWrites(cf) {
							inited[r] = true
						}
					}
				} else if firstWork < 0 {
					firstWork = i
				}
			}
			var missing []string
			for _, in := range f.Instrs {
				if in.Op != "CALL" {
					continue
				}
				callee := strings.TrimSuffix(strings.TrimPrefix(in.Args[0], "·"), "(SB)")
				cf := a.Funcs[callee]
				if cf == nil || strings.HasPrefix(callee, "__init_") {
					continue
				}
				for _, r := range asmLiveIn(cf) {
					if strings.HasPrefix(r, "Z") && r != "Z8" && !inited[r] {
						missing = append(missing, callee+":"+r)
					}
				}
			}
			sort.Strings(missing)
			c.Check(len(missing) == 0 && len(inited) >= 8, d.asmName+":constants", f.File, "every constant vector register read by a routine is written by an init routine called before the first block", d.asmName+": constant registers without initialisation: "+strings.Join(missing, " "), "any document on an AVX-512 CPU")
		}
		// (D) results stored back through their own pointers
		okBack := stores["param:index"] == "*param:index←BX" || strings.HasSuffix(stores["param:index"], "←BX")
		okBack = okBack && strings.HasSuffix(stores["param:carried"], "←DX") && strings.HasSuffix(stores["param:position"], "←R10")
		c.Check(okBack, d.asmName+":write-back", f.File, "index, carried and position are stored back through their pointers after flattening", fmt.Sprintf("%s: write-back of the flatten results is missing or goes through the wrong pointer: %v", d.asmName, stores), "a document with more than one 64-byte block")
	}
}
