package main

import (
	"go/token"
	"fmt"
	"go/ast"
	"sort"
	"strings"
)

func init() {
	reg("C13.set", ruleSetMethods)
	reg("C16.clone", ruleClone)

	f := "parsed_json.go"
	regWitness(
		Witness{Rule: "C13.set", Name: "setint-accepts-null", File: f, After: "func (i *Iter) SetInt(v int64) error {", Old: "case TagFloat, TagInteger, TagUint, TagString:", New: "case TagFloat, TagInteger, TagUint, TagString, TagNull:", Breaks: "SetInt on null overwrites the next tape word"},
		Witness{Rule: "C13.set", Name: "setnull-string-no-nop", File: f, Old: "\t\ti.tape.Tape[i.off] = uint64(TagNop)<<JSONTAGOFFSET | 1\n", New: "", Breaks: "after SetNull on a string its length word is read as a tag"},
		Witness{Rule: "C13.set", Name: "store-before-gate", File: f, After: "func (i *Iter) SetNull() error {", Old: "\tswitch i.t {\n\tcase TagBoolTrue, TagBoolFalse, TagNull:\n\t\t// 1 value on stream", New: "\tif i.off > 0 && i.off <= len(i.tape.Tape) {\n\t\ti.tape.Tape[i.off-1] = uint64(TagNull) << JSONTAGOFFSET\n\t}\n\tswitch i.t {\n\tcase TagBoolTrue, TagBoolFalse, TagNull:\n\t\t// 1 value on stream", Breaks: "a rejected SetNull (on a closing tag) still rewrites the tape"},
		Witness{Rule: "C13.set", Name: "setbool-false-writes-true", File: f, Old: "\t\t\ti.tape.Tape[i.off-1] = uint64(TagBoolFalse) << JSONTAGOFFSET", New: "\t\t\ti.tape.Tape[i.off-1] = uint64(TagBoolTrue) << JSONTAGOFFSET", Breaks: "SetBool(false) stores true"},
		Witness{Rule: "C13.set", Name: "setstring-offset-after-append", File: f, Old: "\t\ti.cur = ((uint64(TagString) << JSONTAGOFFSET) | STRINGBUFBIT) | uint64(len(i.tape.Strings.B))\n\t\ti.tape.Tape[i.off-1] = i.cur\n\t\ti.tape.Tape[i.off] = uint64(len(v))\n\t\ti.t = TagString\n\t\ti.tape.Strings.B = append(i.tape.Strings.B, v...)", New: "\t\ti.tape.Strings.B = append(i.tape.Strings.B, v...)\n\t\ti.cur = ((uint64(TagString) << JSONTAGOFFSET) | STRINGBUFBIT) | uint64(len(i.tape.Strings.B))\n\t\ti.tape.Tape[i.off-1] = i.cur\n\t\ti.tape.Tape[i.off] = uint64(len(v))\n\t\ti.t = TagString", Breaks: "the new string's offset points past its bytes"},
		Witness{Rule: "C16.clone", Name: "share-strings-pointer", File: f, Old: "\t\tif dst.Strings == nil {\n\t\t\tdst.Strings = &TStrings{make([]byte, len(pj.Strings.B))}", New: "\t\tif dst.Strings == nil {\n\t\t\tdst.Strings = pj.Strings", Breaks: "edits leak between clone and original"},
		Witness{Rule: "C16.clone", Name: "append-shares-backing", File: f, Old: "\t\t\tStrings:  &TStrings{make([]byte, len(pj.Strings.B))},", New: "\t\t\tStrings:  &TStrings{append(pj.Strings.B[:0], pj.Strings.B...)},", Breaks: "SetString on the clone and on the original overwrite each other"},
	)
}

type setSpec struct {
	fn      string
	accept  []int64 // documented accepted tags
	extraOK []int64 // additionally tolerated
}

func tagList(ts []int64) string {
	var s []string
	for _, t := range ts {
		s = append(s, tagName(t))
	}
	return strings.Join(s, " ")
}

func ruleSetMethods(c *Ctx) {
	p := c.G()
	two := []int64{'"', 'l', 'u', 'd'}
	one := []int64{'t', 'f', 'n'}
	specs := []setSpec{
		{"Iter.SetFloat", two, nil}, {"Iter.SetInt", two, nil}, {"Iter.SetUInt", two, nil}, {"Iter.SetStringBytes", two, nil},
		{"Iter.SetBool", one, nil},
		{"Iter.SetNull", append(append(append([]int64{}, one...), two...), '{', '['), []int64{'r'}},
	}
	const nopOne = "5620492334958379009" // TagNop<<56 | 1
	for _, sp0 := range specs {
		fd := p.Func(sp0.fn)
		if fd == nil {
			c.Unresolved(sp0.fn, "function not found")
			continue
		}
		sps, ok := p.SymPaths(fd, 20000, nil)
		if !ok {
			c.Undecided(sp0.fn+":paths", p.Pos(fd), "too many paths")
			continue
		}
		accepted := map[int64]bool{}
		bad := map[string]bool{}
		report := func(site, msg, wit string) {
			if !bad[site+msg] {
				bad[site+msg] = true
				c.Bad(sp0.fn+":"+site, p.Pos(fd), msg, wit)
			}
		}
		for _, sp := range sps {
			if !sp.Feasible() || sp.RetNode == nil || len(sp.Ret) != 1 {
				continue
			}
			isErr := !isNilAff(sp.Ret[0])
			var tapeStores, otherStores []SymEffect
			var calls []SymEffect
			for _, ef := range sp.Effects {
				switch {
				case ef.Kind == "store" && ef.Base == "R.tape.Tape":
					tapeStores = append(tapeStores, ef)
				case ef.Kind == "store" && strings.HasPrefix(ef.Target, "R."):
					otherStores = append(otherStores, ef)
				case ef.Kind == "call" && (ef.Target == "copy" || strings.HasPrefix(ef.Base, "R")) && ef.Target != "Tag.String":
					calls = append(calls, ef)
				}
			}
			ts := tagSetOf(sp, "R.t")
			if isErr {
				if len(tapeStores)+len(otherStores) > 0 {
					report("noeffect", fmt.Sprintf("a call that returns an error has already modified the iterator or the tape (%d tape store(s), %d field store(s)) — a disallowed call must change nothing", len(tapeStores), len(otherStores)), "call it on a closing tag reached with AdvanceInto, then marshal")
				}
				continue
			}
			var tags []int64
			for t := range ts {
				tags = append(tags, t)
			}
			sort.Slice(tags, func(i, j int) bool { return tags[i] < tags[j] })
			for _, t := range tags {
				accepted[t] = true
			}
			// frame + content per accepted tag class
			idx := func(ef SymEffect) string { return ef.Index.String() }
			fill := false
			var direct []SymEffect
			for _, ef := range tapeStores {
				if !ef.Val.IsConst() && isNopAff(ef.Val) {
					fill = true // NOP fill loop store with a symbolic payload (checked by C14.writers)
					continue
				}
				direct = append(direct, ef)
			}
			for _, ef := range calls {
				if ef.Target == "copy" {
					report("frame", "the method copies bytes into existing storage ("+ef.Val.String()+"): string storage is append-only, equal strings of a deserialized tape share their bytes", "SetString with a shorter value on a deserialized tape: every equal key/value changes")
				}
			}
			for _, t := range tags {
				wantWords := 1
				if t == '"' || t == 'l' || t == 'u' || t == 'd' {
					wantWords = 2
				}
				container := t == '{' || t == '[' || t == 'r'
				site := "tag " + tagName(t)
				// first word
				if len(direct) == 0 || idx(direct[0]) != "R.off-1" {
					report(site, "the tag word of the current value (Tape[off-1]) is not rewritten", "")
					continue
				}
				switch sp0.fn {
				case "Iter.SetNull":
					if !direct[0].Val.IsConst() || direct[0].Val.K != int64('n')<<56 {
						report(site, "SetNull must store TagNull<<56 with a zero payload", "")
					}
					switch {
					case container:
						emptyBody := false
						for _, cd := range sp.Conds {
							if cd.Other == "" && cd.Op.String() == ">=" && cd.L.String() == "R.off" && cd.R.String() == "R.cur" {
								emptyBody = true // the fill loop was not entered because the body is empty
							}
						}
						if !(fill || emptyBody) || len(direct) != 1 {
							report(site, "SetNull on a container must replace every word of its body by NOPs (fill loop from the cursor to the container end); "+fmt.Sprintf("found fill=%v, %d direct store(s)", fill, len(direct)), "SetNull on a non-empty object, then Serialize+Deserialize")
						}
					case wantWords == 2:
						if len(direct) != 2 || idx(direct[1]) != "R.off" || direct[1].Val.String() != nopOne || fill {
							report(site, "SetNull on a two-word value must turn the value word (Tape[off]) into NOP|1", "SetNull on a string: its length word is then read as a tag")
						}
					default:
						if len(direct) != 1 || fill {
							report(site, "SetNull on a one-word value must only rewrite the tag word", "")
						}
					}
				case "Iter.SetBool":
					if len(direct) != 1 || fill || !direct[0].Val.IsConst() {
						report(site, "SetBool must only rewrite the tag word", "")
						break
					}
					v, known := boolCond(sp, "P:v")
					want := int64('f') << 56
					if v {
						want = int64('t') << 56
					}
					if !known || direct[0].Val.K != want {
						report(site, fmt.Sprintf("SetBool(%v) stores tag word %#x", v, uint64(direct[0].Val.K)), "SetBool(false) on null")
					}
				default:
					if wantWords != 2 {
						break // gate reports it
					}
					if len(direct) != 2 || idx(direct[1]) != "R.off" || fill {
						report(site, "a two-word replacement must write exactly Tape[off-1] and Tape[off]", "")
						break
					}
					w0, w1 := direct[0].Val, direct[1].Val
					switch sp0.fn {
					case "Iter.SetFloat":
						if !(w0.IsConst() && w0.K == int64('d')<<56) || w1.String() != "math.Float64bits(P:v)" {
							report(site, "SetFloat must store TagFloat<<56 (no flags) and math.Float64bits(v); got "+w0.String()+", "+w1.String(), "")
						}
					case "Iter.SetInt":
						if !(w0.IsConst() && w0.K == int64('l')<<56) || w1.String() != "P:v" {
							report(site, "SetInt must store TagInteger<<56 and uint64(v); got "+w0.String()+", "+w1.String(), "")
						}
					case "Iter.SetUInt":
						if !(w0.IsConst() && w0.K == int64('u')<<56) || w1.String() != "P:v" {
							report(site, "SetUInt must store TagUint<<56 and v; got "+w0.String()+", "+w1.String(), "")
						}
					case "Iter.SetStringBytes":
						wantW0 := binAtom("2485986994308513792", "|", "len(R.tape.Strings.B)", true) // '"'<<56 | STRINGBUFBIT
						if w0.String() != wantW0 || w1.String() != "len(P:v)" {
							report(site, "SetStringBytes must store (TagString<<56|STRINGBUFBIT|len(Strings.B) before the append) and len(v); got "+w0.String()+", "+w1.String(), "the new string's offset points past (or before) its bytes")
						}
						okApp := false
						for _, ef := range otherStores {
							if ef.Target == "R.tape.Strings.B" && strings.HasPrefix(ef.Val.String(), "append(R.tape.Strings.B,P:v)") {
								okApp = true
							}
						}
						if !okApp {
							report(site, "SetStringBytes must append v to Strings.B (append-only string storage)", "")
						}
					}
				}
			}
			// the iterator's own view must follow the tape
			newTag := map[string]int64{"Iter.SetFloat": 'd', "Iter.SetInt": 'l', "Iter.SetUInt": 'u', "Iter.SetStringBytes": '"', "Iter.SetNull": 'n'}
			if want, ok := newTag[sp0.fn]; ok {
				okT := false
				for _, ef := range otherStores {
					if ef.Target == "R.t" && ef.Val.IsConst() && ef.Val.K == want {
						okT = true
					}
				}
				if !okT {
					report("itertag", "the iterator's current tag is not updated to the new type", "read the value back through the same iterator")
				}
			}
			if sp0.fn == "Iter.SetNull" && fill {
				// a nulled container: the iterator's pending skip, if set, is the container's own extent (payload − off as
				// they were on entry), so that the next Advance lands right behind the NOP run
				for _, ef := range otherStores {
					if ef.Target == "R.addNext" && ef.Val.String() != "R.cur-R.off" && !(ef.Val.IsConst() && ef.Val.K == 0) {
						report("skip", "after SetNull on a container the iterator's pending skip is "+ef.Val.String()+", expected payload − off (the container's extent) or 0", "iterate an array with Advance, SetNull the first (container) element, go on: the following elements are skipped")
					}
				}
			}
			if sp0.fn == "Iter.SetBool" {
				// the new tag depends on the argument: 't' under v, 'f' under !v
				var vTrue, vFalse bool
				for _, cd := range sp.Conds {
					if cd.Other == "P:v" {
						vTrue = true
					}
					if cd.Other == "!P:v" {
						vFalse = true
					}
				}
				want := int64('f')
				if vTrue && !vFalse {
					want = 't'
				}
				okT := vTrue != vFalse
				found := false
				for _, ef := range otherStores {
					if ef.Target == "R.t" {
						found = ef.Val.IsConst() && ef.Val.K == want
					}
				}
				if !okT || !found {
					report("itertag", "after SetBool the iterator's current tag is not the tag of the value just written", "SetBool(true) on a false value, then Bool() on the same iterator")
				}
			}
		}
		// gate
		var acc []int64
		for t := range accepted {
			acc = append(acc, t)
		}
		sort.Slice(acc, func(i, j int) bool { return acc[i] < acc[j] })
		doc := map[int64]bool{}
		for _, t := range sp0.accept {
			doc[t] = true
		}
		tol := map[int64]bool{}
		for _, t := range sp0.extraOK {
			tol[t] = true
		}
		okGate := true
		for _, t := range sp0.accept {
			if !accepted[t] {
				okGate = false
			}
		}
		for _, t := range acc {
			if !doc[t] && !tol[t] {
				okGate = false
			}
		}
		c.Check(okGate, sp0.fn+":gate", p.Pos(fd), "accepts exactly {"+tagList(sp0.accept)+"}", "accepts {"+tagList(acc)+"}, documented {"+tagList(sp0.accept)+"}: a replacement wider than the entry overwrites the following tape word, a narrower gate rejects documented uses", "call it on a value of the extra/missing type and read the sibling")
		if len(bad) == 0 {
			c.Ok(sp0.fn+":stores", p.Pos(fd), "tag word, value word, NOP fill and iterator state are written exactly as documented; error paths write nothing")
		}
	}
	// SetString delegates
	if fd := p.Func("Iter.SetString"); fd != nil {
		okD := false
		ast.Inspect(fd.Body, func(n ast.Node) bool {
			if call, ok := n.(*ast.CallExpr); ok && p.CalleeName(call) == "Iter.SetStringBytes" {
				okD = true
			}
			return true
		})
		c.Check(okD, "Iter.SetString:delegates", p.Pos(fd), "delegates to SetStringBytes", "SetString no longer delegates to SetStringBytes (undecided)", "")
	} else {
		c.Unresolved("Iter.SetString", "function not found")
	}
}

// C16.clone — Clone produces storage that shares nothing with the source.
func ruleClone(c *Ctx) {
	p := c.G()
	fd := p.Func("ParsedJson.Clone")
	if fd == nil {
		c.Unresolved("ParsedJson.Clone", "function not found")
		return
	}
	sps, ok := p.SymPaths(fd, 20000, nil)
	if !ok {
		c.Undecided("Clone:paths", p.Pos(fd), "too many paths")
		return
	}
	n := 0
	bad := map[string]bool{}
	for _, sp := range sps {
		if !sp.Feasible() || sp.RetNode == nil || len(sp.Ret) != 1 {
			continue
		}
		n++
		root, _ := sp.Ret[0].SingleAtom()
		for _, fld := range []string{"Tape", "Message", "Strings.B"} {
			v := finalOf(sp.Env, root+"."+fld)
			a, _ := v.SingleAtom()
			src := "R." + fld
			// must be BASE[:len(src)] with BASE fresh (make) or the destination's own previous storage
			want := "[:len(" + src + ")]"
			okShape := strings.HasSuffix(a, want)
			base := strings.TrimSuffix(a, want)
			_, fresh := sp.Env.makes[base]
			own := base == "P:dst."+fld
			if !fresh && strings.HasPrefix(base, "make(") {
				fresh = true
			}
			alias := strings.Contains(base, "R.") && !strings.HasPrefix(base, "make(")
			// append(src[:0:0], src...) idiom: fresh, right length, already filled
			if mk, isFresh := sp.Env.makes[a]; isFresh && mk[0].Eq(affAtom("len("+src+")")) && sp.Env.copies[a] == src {
				continue
			}
			// append(BASE[:0], src...): the source's content and length in BASE's storage (or a larger fresh one), whatever
			// BASE's capacity; shares nothing with the source unless BASE does
			if an := reCallNum.ReplaceAllString(a, ""); strings.HasPrefix(an, "append(") && strings.HasSuffix(an, "[:0],"+src+")") {
				b0 := strings.TrimSuffix(strings.TrimPrefix(an, "append("), "[:0],"+src+")")
				if b0 == "P:dst."+fld || (strings.HasPrefix(b0, "make(") && !strings.Contains(strings.TrimSuffix(b0, "len("+src+"))"), "R.")) {
					continue
				}
			}
			if !okShape || !(fresh || own) || alias {
				msg := fmt.Sprintf("the clone's %s is %s: it must be freshly allocated (or the destination's own storage) resliced to the source length — anything derived from the source shares its backing array", fld, a)
				if !bad[msg] {
					bad[msg] = true
					c.Bad("Clone:"+fld, p.Pos(fd), msg, "SetString on the clone and on the original: the second edit overwrites the first")
				}
				continue
			}
			// reslicing the destination's own storage needs room: cap(dst.X) >= len(src.X) established on the path;
			// a fresh buffer must have been made with exactly the source length
			if own {
				if !hasCond(sp, "cap(P:dst."+fld+")", token.GEQ, "len("+src+")") {
					msg := "the destination's own " + fld + " is resliced to the source length without cap(dst." + fld + ") >= len(src." + fld + ") having been established: a smaller destination panics (slice bounds out of range)"
					if !bad[msg] {
						bad[msg] = true
						c.Bad("Clone:"+fld+":room", p.Pos(fd), msg, "Clone into a destination that was used for a smaller document")
					}
				}
			} else if !strings.HasPrefix(reCallNum.ReplaceAllString(base, ""), "make(") || !strings.HasSuffix(reCallNum.ReplaceAllString(base, ""), ",len("+src+"))") {
				msg := "the fresh " + fld + " of the clone is " + base + ", expected make(…, len(src." + fld + "))"
				if !bad[msg] {
					bad[msg] = true
					c.Bad("Clone:"+fld+":room", p.Pos(fd), msg, "")
				}
			}
			copied := false
			for _, ef := range sp.Effects {
				// the destination of the copy is the buffer *after* it was resliced to the source length (copying first
				// would fill only the old length)
				if ef.Kind == "call" && ef.Target == "copy" && len(ef.Args) == 2 && ef.Args[1].String() == src && ef.Args[0].String() == a {
					copied = true
				}
			}
			if !copied {
				msg := "the clone's " + fld + " is not filled by copy(dst." + fld + ", src." + fld + ") after it was given the source length"
				if !bad[msg] {
					bad[msg] = true
					c.Bad("Clone:"+fld+":copy", p.Pos(fd), msg, "")
				}
			}
		}
		// nil destination / nil Strings are replaced by fresh values before use
		if hasCond(sp, "P:dst", token.EQL, "nil") == strings.HasPrefix(root, "P:dst") {
			if !bad["dstnil"] {
				bad["dstnil"] = true
				c.Bad("Clone:destination", p.Pos(fd), "the result is the parameter although it is nil, or a fresh value although a destination was supplied", "Clone(nil)")
			}
		}
		if root == "P:dst" {
			sNil, sSet := hasCond(sp, "P:dst.Strings", token.EQL, "nil"), hasCond(sp, "P:dst.Strings", token.NEQ, "nil")
			fresh := false
			for _, ef := range sp.Effects {
				if ef.Kind == "store" && ef.Target == "P:dst.Strings" && strings.HasPrefix(ef.Val.String(), "&lit:TStrings{") {
					fresh = true
				}
			}
			if sNil == sSet || sNil != fresh {
				if !bad["strnil"] {
					bad["strnil"] = true
					c.Bad("Clone:Strings-nil", p.Pos(fd), "a destination without a string buffer does not get a fresh one (or one that has it gets it replaced)", "Clone into &ParsedJson{}")
				}
			}
		}
		// Strings pointer itself must not be the source's
		sv := finalOf(sp.Env, root+".Strings")
		if a, _ := sv.SingleAtom(); a == "R.Strings" {
			if !bad["ptr"] {
				bad["ptr"] = true
				c.Bad("Clone:Strings-pointer", p.Pos(fd), "the clone shares the source's *TStrings", "any SetString on either side")
			}
		}
		iv := finalOf(sp.Env, root+".internal")
		if a, _ := iv.SingleAtom(); a != "nil" && !bad["int"] {
			bad["int"] = true
			c.Bad("Clone:internal", p.Pos(fd), "the clone keeps a reference to parser-internal state ("+a+")", "reuse of the clone as parse destination while the original is in use")
		}
	}
	c.MinCount("Clone returning paths", n, 4)
	if len(bad) == 0 {
		c.Ok("Clone:independent", p.Pos(fd), fmt.Sprintf("Tape, Message and Strings.B are fresh or destination-owned, resliced to the source length and filled by copy on all %d paths", n))
	}
	// Iter.Root with a caller-supplied destination refreshes Strings and Message unconditionally
	rfd := p.Func("Iter.Root")
	if rfd == nil {
		c.Unresolved("Iter.Root", "function not found")
		return
	}
	rsps, ok := p.SymPaths(rfd, 5000, nil)
	if !ok {
		c.Undecided("Iter.Root:paths", p.Pos(rfd), "too many paths")
		return
	}
	okRoot, nR := true, 0
	for _, sp := range rsps {
		if !sp.Feasible() || sp.RetNode == nil || len(sp.Ret) != 3 || !isNilAff(sp.Ret[2]) {
			continue
		}
		supplied := false
		for _, cd := range sp.Conds {
			if cd.Other == "" && cd.L.String() == "P:dst" && cd.R.String() == "nil" && cd.Op.String() == "!=" {
				supplied = true
			}
		}
		if !supplied {
			continue
		}
		nR++
		s1 := finalOf(sp.Env, "P:dst.tape.Strings").String() == "R.tape.Strings"
		s2 := finalOf(sp.Env, "P:dst.tape.Message").String() == "R.tape.Message"
		if !s1 || !s2 {
			okRoot = false
		}
	}
	c.Check(okRoot && nR > 0, "Iter.Root:dst-refresh", p.Pos(rfd), "a supplied destination always receives the iterator's Strings and Message", "Iter.Root does not refresh Strings/Message of a reused destination on every path: strings of a later document are read from an earlier one", "WithCopyStrings(false), reuse the ParsedJson and the same dst Iter across documents")
}
