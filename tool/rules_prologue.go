package main

import (
	"go/ast"
	"go/token"
	"go/types"
	"sort"
	"strings"
)

func init() {
	reg("C12.prologue", ruleWalkPrologue)
	regWitness(
		Witness{Rule: "C12.prologue", Name: "interface-empty-shortcut", File: "parsed_array.go", After: "func (a *Array) Interface(", Old: "\tif lenEst < 0 {\n\t\tlenEst = 0\n\t}", New: "\tif lenEst <= 0 {\n\t\treturn []interface{}{}, nil\n\t}", Breaks: "[true] comes back as an empty array"},
		Witness{Rule: "C12.prologue", Name: "foreach-shortcut", File: "parsed_object.go", After: "func (o *Object) ForEach(", Old: "\tvar tmp Iter\n", New: "\tvar tmp Iter\n\tif onlyKeys != nil && len(onlyKeys) == 0 {\n\t\treturn nil\n\t}\n", Breaks: "an empty (non-nil) filter means no filter elsewhere; here nothing is visited"},
	)
}

// C12.prologue — the walking functions of the read API (every method of Array, Object, Iter, Elements, ParsedJson that
// contains a loop) decide their result from the walk: a return statement that precedes the loop must hand back a
// failure — a package-level error value, a freshly made error, or an error variable under `if err != nil`. A successful
// result produced before any element was looked at (a "fast path", a shortcut for an estimated size) is a finding: the
// loop-segment rules (C12.elemloop, C12.aswords, C12.keyscan, C10.loop, …) say nothing about paths that never reach it.
func ruleWalkPrologue(c *Ctx) {
	p := c.G()
	names := p.FuncNames()
	sort.Strings(names)
	nFuncs, nRets := 0, 0
	errType := types.Universe.Lookup("error").Type()
	for _, name := range names {
		fd := p.Func(name)
		if fd == nil || fd.Body == nil || fd.Recv == nil {
			continue
		}
		switch p.FileOf(fd) {
		case "parsed_array.go", "parsed_object.go", "parsed_json.go":
		default:
			continue
		}
		recv := strings.SplitN(name, ".", 2)[0]
		switch recv {
		case "Array", "Object", "Iter", "Elements", "ParsedJson":
		default:
			continue
		}
		// the walk: a loop that is a top-level statement of the body
		var loop ast.Stmt
		for _, st := range fd.Body.List {
			if ls, ok := st.(*ast.LabeledStmt); ok {
				st = ls.Stmt
			}
			switch st.(type) {
			case *ast.ForStmt, *ast.RangeStmt:
				if loop == nil {
					loop = st
				}
			}
		}
		if loop == nil {
			continue
		}
		nFuncs++
		var bad []string
		var stack []ast.Node
		fgp := p.FGOf(fd)
		head := fgp.LoopHead(loop)
		ast.Inspect(fd.Body, func(n ast.Node) bool {
			if n == nil {
				stack = stack[:len(stack)-1]
				return true
			}
			stack = append(stack, n)
			if _, ok := n.(*ast.FuncLit); ok {
				stack = stack[:len(stack)-1]
				return false
			}
			rs, ok := n.(*ast.ReturnStmt)
			if !ok {
				return true
			}
			// "precedes the walk": reachable from the entry without passing the head of the loop (decided on the flow
			// graph, not by source position — an expanded helper keeps the positions of where it was written)
			if rb, _, okw := fgp.Where(rs); okw && head >= 0 {
				if rb == head || !fgp.ReachWithoutBlock(0, rb, head) {
					return true
				}
			} else if rs.Pos() >= loop.Pos() {
				return true
			}
			nRets++
			if len(rs.Results) == 0 {
				bad = append(bad, "bare return at "+p.Pos(rs))
				return true
			}
			last := ast.Unparen(rs.Results[len(rs.Results)-1])
			if t := p.Info.TypeOf(last); t == nil || !types.Identical(t, errType) && !types.AssignableTo(t, errType) || isNilIdent(last) {
				bad = append(bad, "`"+p.Str(rs)+"` at "+p.Pos(rs)+" does not return an error")
				return true
			}
			switch v := last.(type) {
			case *ast.CallExpr:
				cn := p.CalleeName(v)
				if cn == "errors.New" || cn == "fmt.Errorf" {
					return true
				}
			case *ast.Ident:
				if vr, ok := p.ObjOf(v).(*types.Var); ok {
					if vr.Parent() == p.Pkg.Types.Scope() && strings.HasPrefix(vr.Name(), "Err") {
						return true
					}
					// local error under `if err != nil`
					for i := len(stack) - 2; i >= 0; i-- {
						ifs, ok := stack[i].(*ast.IfStmt)
						if !ok {
							continue
						}
						inBody := false
						for _, st := range ifs.Body.List {
							if containsNode(st, rs) {
								inBody = true
							}
						}
						if be, ok := ast.Unparen(ifs.Cond).(*ast.BinaryExpr); ok && inBody && be.Op == token.NEQ && isNilIdent(ast.Unparen(be.Y)) {
							if id, ok := ast.Unparen(be.X).(*ast.Ident); ok && p.ObjOf(id) == vr {
								return true
							}
						}
					}
				}
			}
			bad = append(bad, "`"+p.Str(rs)+"` at "+p.Pos(rs)+": the error returned is not known to be non-nil")
			return true
		})
		c.Check(len(bad) == 0, "prologue:"+name, p.Pos(fd), "no successful return precedes the walk", name+" can return before its loop looked at any element: "+strings.Join(bad, "; ")+" — the result then does not come from the walk the other APIs perform", "compare with a plain Advance walk on small and large containers")
	}
	c.MinCount("walking methods of the read API", nFuncs, 22)
}

func isNilIdent(e ast.Expr) bool {
	id, ok := e.(*ast.Ident)
	return ok && id.Name == "nil"
}
