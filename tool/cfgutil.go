package main

import (
	"go/ast"
	"go/token"
	"strings"

	"golang.org/x/tools/go/cfg"
)

// FG wraps a go/cfg graph with the derived relations the rules need.
type FG struct {
	P     *GoProg
	G     *cfg.CFG
	Preds [][]int
	// node -> (block index, node index) for every node and sub-node placed in a block
	where map[ast.Node][2]int
	// MaxEdgeUse: how often EnumSegment may take the same CFG edge on one path (0/1: once; 2 unrolls inner loops twice)
	MaxEdgeUse int
}

func (p *GoProg) NewFG(g *cfg.CFG) *FG {
	f := &FG{P: p, G: g, where: map[ast.Node][2]int{}}
	f.Preds = make([][]int, len(g.Blocks))
	for _, b := range g.Blocks {
		for _, s := range b.Succs {
			f.Preds[s.Index] = append(f.Preds[s.Index], int(b.Index))
		}
		for i, n := range b.Nodes {
			bi := [2]int{int(b.Index), i}
			ast.Inspect(n, func(x ast.Node) bool {
				if x == nil {
					return false
				}
				if _, ok := x.(*ast.FuncLit); ok && x != n {
					return false // closure bodies are not part of this graph
				}
				if _, seen := f.where[x]; !seen {
					f.where[x] = bi
				}
				return true
			})
		}
	}
	return f
}

func (p *GoProg) FGOf(fd *ast.FuncDecl) *FG { return p.NewFG(p.CFG(fd)) }

// Where returns the block and node index holding n (ok=false if n is not in the graph).
func (f *FG) Where(n ast.Node) (blk, idx int, ok bool) {
	w, ok := f.where[n]
	return w[0], w[1], ok
}

// Branch describes the two-way exit of a block.
type Branch struct {
	Block *cfg.Block
	Cond  ast.Expr // condition (if/for/tagless case) or case value (when Tag != nil)
	Tag   ast.Expr // non-nil: the test is Tag == Cond
	Kind  string   // "cond", "case", "range", "select", "other"
	True  *cfg.Block
	False *cfg.Block
}

// BranchOf returns the branch at the end of block b, or nil if b has fewer than two successors.
func (f *FG) BranchOf(b *cfg.Block) *Branch {
	if len(b.Succs) != 2 {
		return nil
	}
	br := &Branch{Block: b, True: b.Succs[0], False: b.Succs[1], Kind: "other"}
	if b.Kind == cfg.KindRangeLoop && len(b.Nodes) == 0 {
		br.Kind = "range"
		return br
	}
	if len(b.Nodes) == 0 {
		if b.Succs[0].Kind == cfg.KindSelectCaseBody {
			br.Kind = "select"
		}
		return br
	}
	last, ok := b.Nodes[len(b.Nodes)-1].(ast.Expr)
	if !ok {
		if b.Succs[0].Kind == cfg.KindSelectCaseBody {
			br.Kind = "select"
		}
		return br
	}
	if b.Succs[0].Kind == cfg.KindSelectCaseBody {
		br.Kind = "select"
		return br
	}
	if b.Succs[0].Kind == cfg.KindRangeBody {
		br.Kind = "range"
		return br
	}
	br.Cond = last
	br.Kind = "cond"
	if cc, ok := f.P.Parent(last).(*ast.CaseClause); ok {
		inList := false
		for _, e := range cc.List {
			if e == last {
				inList = true
			}
		}
		if inList {
			// find the switch
			if blk, ok := f.P.Parent(cc).(*ast.BlockStmt); ok {
				if sw, ok := f.P.Parent(blk).(*ast.SwitchStmt); ok && sw.Tag != nil {
					br.Tag = sw.Tag
					br.Kind = "case"
				}
			}
		}
	}
	return br
}

// Reach returns the set of blocks reachable from block `from` (inclusive) without
// entering any block for which stop returns true (stop blocks are not expanded, but are included).
func (f *FG) Reach(from int, stop func(b *cfg.Block) bool) map[int]bool {
	seen := map[int]bool{from: true}
	work := []int{from}
	for len(work) > 0 {
		n := work[len(work)-1]
		work = work[:len(work)-1]
		b := f.G.Blocks[n]
		if stop != nil && n != from && stop(b) {
			continue
		}
		for _, s := range b.Succs {
			if !seen[int(s.Index)] {
				seen[int(s.Index)] = true
				work = append(work, int(s.Index))
			}
		}
	}
	return seen
}

// ReachWithoutEdge reports whether block `to` is reachable from entry when the edge from->succ is removed.
func (f *FG) ReachWithoutEdge(to int, efrom int, esucc int) bool {
	seen := map[int]bool{0: true}
	work := []int{0}
	for len(work) > 0 {
		n := work[len(work)-1]
		work = work[:len(work)-1]
		if n == to {
			return true
		}
		b := f.G.Blocks[n]
		for i, s := range b.Succs {
			if n == efrom && i == esucc {
				continue
			}
			if !seen[int(s.Index)] {
				seen[int(s.Index)] = true
				work = append(work, int(s.Index))
			}
		}
	}
	return false
}

// ReachWithoutBlock reports whether `to` is reachable from `from` without passing through `avoid`.
func (f *FG) ReachWithoutBlock(from, to, avoid int) bool {
	if from == avoid {
		return false
	}
	seen := map[int]bool{from: true}
	work := []int{from}
	for len(work) > 0 {
		n := work[len(work)-1]
		work = work[:len(work)-1]
		if n == to {
			return true
		}
		for _, s := range f.G.Blocks[n].Succs {
			si := int(s.Index)
			if si == avoid || seen[si] {
				continue
			}
			seen[si] = true
			work = append(work, si)
		}
	}
	return false
}

// EdgeFact is a branch outcome that holds at a program point.
type EdgeFact struct {
	Br    *Branch
	Taken bool // true edge taken
}

// DominatingFacts lists every branch edge that dominates block `blk` (all paths from entry to
// blk pass through the edge). Back edges into loops are handled by the reachability test.
func (f *FG) DominatingFacts(blk int) []EdgeFact {
	var out []EdgeFact
	for _, b := range f.G.Blocks {
		if !b.Live {
			continue
		}
		br := f.BranchOf(b)
		if br == nil {
			continue
		}
		for si := 0; si < 2; si++ {
			if b.Succs[0] == b.Succs[1] {
				continue
			}
			if int(b.Index) == blk {
				continue
			}
			if !f.ReachWithoutEdge(blk, int(b.Index), si) {
				out = append(out, EdgeFact{Br: br, Taken: si == 0})
			}
		}
	}
	return out
}

// ReturnBlocks lists live blocks that end the function (no successors).
func (f *FG) ReturnBlocks() []*cfg.Block {
	var out []*cfg.Block
	for _, b := range f.G.Blocks {
		if b.Live && len(b.Succs) == 0 {
			out = append(out, b)
		}
	}
	return out
}

// callsIn lists the call expressions inside a node (not descending into closures).
func callsIn(n ast.Node) []*ast.CallExpr {
	var out []*ast.CallExpr
	ast.Inspect(n, func(x ast.Node) bool {
		if _, ok := x.(*ast.FuncLit); ok {
			return false
		}
		if c, ok := x.(*ast.CallExpr); ok {
			out = append(out, c)
		}
		return true
	})
	return out
}

// callsInDeep lists calls including those in closures.
func callsInDeep(n ast.Node) []*ast.CallExpr {
	var out []*ast.CallExpr
	ast.Inspect(n, func(x ast.Node) bool {
		if c, ok := x.(*ast.CallExpr); ok {
			out = append(out, c)
		}
		return true
	})
	return out
}

// conjuncts splits a && b && c.
func conjuncts(e ast.Expr) []ast.Expr {
	e = ast.Unparen(e)
	if b, ok := e.(*ast.BinaryExpr); ok && b.Op == token.LAND {
		return append(conjuncts(b.X), conjuncts(b.Y)...)
	}
	return []ast.Expr{e}
}

// disjuncts splits a || b || c.
func disjuncts(e ast.Expr) []ast.Expr {
	e = ast.Unparen(e)
	if b, ok := e.(*ast.BinaryExpr); ok && b.Op == token.LOR {
		return append(disjuncts(b.X), disjuncts(b.Y)...)
	}
	return []ast.Expr{e}
}

// Atom is an atomic boolean fact: Expr holds (Neg=false) or does not hold (Neg=true).
type Atom struct {
	E   ast.Expr
	Neg bool
	// for switch-case facts: Tag == E (Neg=false) / Tag != E (Neg=true)
	Tag ast.Expr
}

// atomsOf returns the atomic facts implied by an edge fact.
func atomsOf(ef EdgeFact) []Atom {
	br := ef.Br
	if br.Cond == nil {
		return nil
	}
	if br.Tag != nil {
		return []Atom{{E: br.Cond, Neg: !ef.Taken, Tag: br.Tag}}
	}
	var out []Atom
	if ef.Taken {
		for _, c := range conjuncts(br.Cond) {
			out = append(out, normNot(Atom{E: c}))
		}
	} else {
		ds := disjuncts(br.Cond)
		for _, d := range ds {
			out = append(out, normNot(Atom{E: d, Neg: true}))
		}
	}
	return out
}

func normNot(a Atom) Atom {
	for {
		e := ast.Unparen(a.E)
		if u, ok := e.(*ast.UnaryExpr); ok && u.Op == token.NOT {
			a.E = u.X
			a.Neg = !a.Neg
			continue
		}
		a.E = e
		return a
	}
}

// unwrapW: the canonical text of `fmt.Errorf("…%w…", a, b, err)` stands for the wrapped operand: a failure handed on with
// context added is still that failure for every caller that tests `err != nil` (and for errors.Is/As). Anything else is
// returned unchanged.
func unwrapW(s string) string {
	orig := s
	if i := strings.LastIndex(s, ")#"); i >= 0 && strings.Trim(s[i+2:], "0123456789") == "" {
		s = s[:i+1] // call-instance suffix of the symbolic engine
	}
	if !strings.HasPrefix(s, "fmt.Errorf(\"") || !strings.HasSuffix(s, ")") {
		return orig
	}
	body := s[len("fmt.Errorf(") : len(s)-1]
	// split at top-level commas, honouring quotes and brackets
	var parts []string
	depth, inStr, start := 0, false, 0
	for i := 0; i < len(body); i++ {
		ch := body[i]
		switch {
		case inStr:
			if ch == '\\' {
				i++
			} else if ch == '"' {
				inStr = false
			}
		case ch == '"':
			inStr = true
		case ch == '(' || ch == '[' || ch == '{':
			depth++
		case ch == ')' || ch == ']' || ch == '}':
			depth--
		case ch == ',' && depth == 0:
			parts = append(parts, strings.TrimSpace(body[start:i]))
			start = i + 1
		}
	}
	parts = append(parts, strings.TrimSpace(body[start:]))
	if len(parts) < 2 || strings.Count(parts[0], "%w") != 1 {
		return orig
	}
	// index of the operand that %w consumes = number of verbs before it
	f := parts[0]
	k := 0
	for i := 0; i+1 < len(f); i++ {
		if f[i] != '%' {
			continue
		}
		if f[i+1] == '%' {
			i++
			continue
		}
		if f[i+1] == 'w' {
			break
		}
		k++
	}
	if 1+k >= len(parts) {
		return orig
	}
	return parts[1+k]
}
