package main

import (
	"fmt"
	"go/token"
	"strings"
)

func init() {
	reg("C12.find", ruleFindElement)
	f := "parsed_json.go"
	regWitness(
		Witness{Rule: "C12.find", Name: "root-error-inverted", File: f, After: "\t\t\t_, _, err := cp.Root(&cp)\n", Old: "if err != nil {", New: "if err == nil {", Breaks: "FindElement returns (dst, nil) at every root"},
		Witness{Rule: "C12.find", Name: "object-error-inverted", File: f, After: "\t\t\tobj, err := cp.Object(&o)\n", Old: "if err != nil {", New: "if err == nil {", Breaks: "FindElement never searches the object"},
		Witness{Rule: "C12.find", Name: "foreach-stops-at-roots", File: f, After: "func (pj *ParsedJson) ForEach(", Old: "if err != nil || t != TypeRoot {", New: "if err != nil || t == TypeRoot {", Breaks: "ParsedJson.ForEach never calls back"},
		Witness{Rule: "C12.find", Name: "foreach-not-moved-into-root", File: f, After: "func (pj *ParsedJson) ForEach(", Old: "\t\telem.AdvanceInto()\n", New: "", Breaks: "the callback receives an iterator with nothing queued"},
	)
}

// C12.find — Iter.FindElement works on a copy of the iterator: an object is searched with FindPath(dst, path...), a root
// is entered (Root(&cp)) and the search goes on, an iterator with nothing queued steps once (end → not found), anything
// else is an error; errors of Object/Root are returned; an empty path is "not found".
// ParsedJson.ForEach delivers, for every root of the tape in order, an iterator moved into that root; it stops at the
// first non-root (returning the cursor error, nil at the end) and returns the callback's error.
func ruleFindElement(c *Ctx) {
	p := c.G()
	if fd := p.Func("Iter.FindElement"); fd != nil {
		fg := p.FGOf(fd)
		loop := outerLoop(fd)
		head := fg.LoopHead(loop)
		okStart := true
		nEmpty, nCopy := 0, 0
		if pre, ok := fg.EnumSegment(0, 0, map[int]bool{head: true}, 100); ok {
			for _, pa := range pre {
				env := p.NewFuncEnv(fd)
				sp := p.ExecPath(pa, env)
				if sp.RetNode != nil {
					nEmpty++
					if !(hasCond(sp, "len(P:path)", token.EQL, "0") && len(sp.Ret) == 2 && sp.Ret[0].String() == "P:dst" && sp.Ret[1].String() == "ErrPathNotFound") {
						okStart = false
					}
					continue
				}
				nCopy++
				cp := ""
				for _, ef := range sp.Effects {
					if ef.Kind == "store" && ef.Target == "L:cp" {
						cp = ef.Val.String()
					}
				}
				if cp != "R" || !hasCond(sp, "len(P:path)", token.NEQ, "0") {
					okStart = false
				}
			}
		} else {
			okStart = false
		}
		c.Check(okStart && nEmpty == 1 && nCopy == 1, "FindElement:start", p.Pos(fd), "empty path → ErrPathNotFound; otherwise the search runs on a copy of the iterator", "Iter.FindElement does not start as documented", "FindElement(nil) / the iterator must not be advanced")
		bad := ""
		nObj, nRoot, nStep := 0, 0, 0
		for _, sp := range p.LoopSegmentPaths(fd, loop, 5000) {
			if !sp.Feasible() {
				continue
			}
			tag := int64(-1)
			for _, cd := range sp.Conds {
				if cd.Other == "" && cd.Op == token.EQL && cd.L.String() == "L:cp.t" && cd.R.IsConst() {
					tag = cd.R.K
				}
			}
			ret := func(i int) string {
				if i < len(sp.Ret) {
					return sp.Ret[i].String()
				}
				return ""
			}
			switch tag {
			case '{':
				oc := callsTo(sp, "Iter.Object")
				if len(oc) != 1 || oc[0].Base != "L:cp" {
					bad = "an object is not opened with cp.Object"
					continue
				}
				v := oc[0].Val.String()
				if hasCond(sp, v+".1", token.NEQ, "nil") {
					if sp.Continues || ret(1) != v+".1" {
						bad = "an error opening the object is not returned"
					}
					continue
				}
				nObj++
				fp := callsTo(sp, "Object.FindPath")
				if !hasCond(sp, v+".1", token.EQL, "nil") || len(fp) != 1 || fp[0].Base != v+".0" || len(fp[0].Args) != 2 || fp[0].Args[0].String() != "P:dst" || fp[0].Args[1].String() != "P:path" || sp.Continues || len(sp.Ret) != 1 || sp.Ret[0].String() != fp[0].Val.String() {
					bad = "an object is not searched with obj.FindPath(dst, path...) and that result returned"
				}
			case 'r':
				rc := callsTo(sp, "Iter.Root")
				if len(rc) != 1 || rc[0].Base != "L:cp" || len(rc[0].Args) != 1 || rc[0].Args[0].String() != "&L:cp" {
					bad = "a root is not entered with cp.Root(&cp)"
					continue
				}
				v := rc[0].Val.String()
				if hasCond(sp, v+".2", token.NEQ, "nil") {
					if sp.Continues || ret(1) != v+".2" {
						bad = "an error entering the root is not returned"
					}
					continue
				}
				nRoot++
				if !hasCond(sp, v+".2", token.EQL, "nil") || !sp.Continues {
					bad = "after entering a root the search does not go on with its content"
				}
			case 0:
				ac := callsTo(sp, "Iter.AdvanceInto")
				if len(ac) != 1 || ac[0].Base != "L:cp" {
					bad = "an iterator with nothing queued does not step once"
					continue
				}
				v := ac[0].Val.String()
				switch {
				case hasCond(sp, v, token.EQL, "0"):
					if sp.Continues || ret(1) != "ErrPathNotFound" {
						bad = "the end of the tape is not reported as ErrPathNotFound"
					}
				case hasCond(sp, v, token.NEQ, "0"):
					nStep++
					if !sp.Continues {
						bad = "after stepping the search does not look at the new tag"
					}
				default:
					bad = "the step result is not tested for the end"
				}
			default:
				if sp.Continues || len(sp.Ret) != 2 || isNilAff(sp.Ret[1]) {
					bad = "a value that is neither object, root nor nothing-queued is not an error"
				}
			}
		}
		if bad == "" && (nObj != 1 || nRoot != 1 || nStep != 1) {
			bad = fmt.Sprintf("expected one object/root/step path each, got %d/%d/%d", nObj, nRoot, nStep)
		}
		c.Check(bad == "", "FindElement:search", p.Pos(fd), "object → FindPath; root → enter and go on; nothing queued → step; else error", "Iter.FindElement: "+bad, `FindElement(nil, "a", "b") on {"a":{"b":1}}`)
	} else {
		c.Unresolved("Iter.FindElement", "function not found")
	}

	if fd := p.Func("ParsedJson.ForEach"); fd != nil {
		rootT, _ := p.PkgConstInt("TypeRoot")
		bad := ""
		nCb, nStop := 0, 0
		for _, sp := range p.LoopSegmentPaths(fd, outerLoop(fd), 5000) {
			if !sp.Feasible() {
				continue
			}
			ai := callsTo(sp, "Iter.AdvanceIter")
			if len(ai) < 1 || len(ai[0].Args) != 1 || ai[0].Args[0].String() != "&L:elem" {
				bad = "an iteration does not ask for the next element with AdvanceIter(&elem)"
				continue
			}
			v := ai[0].Val.String()
			stop := false
			for _, cd := range sp.Conds {
				if cd.Other != "" && strings.Contains(cd.Other, v+".0") && strings.Contains(cd.Other, v+".1") && !strings.HasPrefix(cd.Other, "!") {
					want1 := fmt.Sprintf("((%d!=%s.0)||(%s.1!=nil))", rootT, v, v)
					if cd.Other != want1 {
						bad = "the stop test is " + cd.Other + ", expected error or type != TypeRoot"
					}
					stop = true
				}
			}
			isRoot := hasCond(sp, v+".0", token.EQL, fmt.Sprint(rootT)) && hasCond(sp, v+".1", token.EQL, "nil")
			cb := 0
			var cbVal string
			for _, ef := range sp.Effects {
				if ef.Kind == "call" && strings.HasPrefix(ef.Target, "var:") {
					cb++
					cbVal = ef.Val.String()
					into := callsTo(sp, "Iter.AdvanceInto")
					if len(ef.Args) != 1 || !strings.HasPrefix(ef.Args[0].String(), "L:elem@AdvanceIter") || len(into) != 1 || into[0].Base != ef.Args[0].String() || into[0].At > ef.At {
						bad = "the callback does not receive the element iterator moved into the root (elem.AdvanceInto() before the call)"
					}
				}
			}
			switch {
			case stop && cb == 0:
				nStop++
				if sp.Continues || len(sp.Ret) != 1 || sp.Ret[0].String() != v+".1" {
					bad = "at the first non-root the loop does not return the cursor error (nil at the end)"
				}
			case isRoot && cb == 1:
				nCb++
				cbErr, cbOK := hasCond(sp, cbVal, token.NEQ, "nil"), hasCond(sp, cbVal, token.EQL, "nil")
				if cbErr && (sp.Continues || len(sp.Ret) != 1 || sp.Ret[0].String() != cbVal) {
					bad = "the callback's error is not returned"
				}
				if cbOK && !sp.Continues {
					bad = "after a successful callback the loop does not go on with the next root"
				}
				if cbErr == cbOK {
					bad = "the callback's result is not examined"
				}
			default:
				bad = "an iteration neither stops at a non-root nor calls back exactly once for a root" + condsDesc(sp, 4)
			}
		}
		if bad == "" && (nCb < 2 || nStop < 1) {
			bad = fmt.Sprintf("expected callback and stop paths, got %d/%d", nCb, nStop)
		}
		c.Check(bad == "", "ParsedJson.ForEach:roots", p.Pos(fd), "every root in order: element iterator moved into the root, callback, its error returned; stop at the first non-root", "ParsedJson.ForEach: "+bad, "a three-line NDJSON document")
	} else {
		c.Unresolved("ParsedJson.ForEach", "function not found")
	}
}
