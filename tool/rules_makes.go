package main

import (
	"go/token"
	"sort"
	"strings"
)

func init() {
	reg("C19.makes", ruleMakeSizes)
	regWitness(
		Witness{Rule: "C19.makes", Name: "capacity-clamp-removed", File: "parsed_array.go", After: "func (a *Array) AsFloat(", Old: "\tif lenEst < 0 {\n\t\tlenEst = 0\n\t}\n", New: "", Breaks: "an array entry of a corrupt tape that points behind itself makes AsFloat panic (makeslice: cap out of range)"},
	)
}

// C19.makes — a computed length or capacity handed to make() in the traversal/marshal functions (which also run on
// deserialized, possibly corrupt tapes) is known to be non-negative on its path: a constant, a sum of len()/cap()
// terms, or a value the path compared with 0. A negative size is a run-time panic, not an error.
func ruleMakeSizes(c *Ctx) {
	p := c.G()
	scope := append([]string{}, corruptScope...)
	sort.Strings(scope)
	nMakes := 0
	for _, fn := range scope {
		if strings.HasPrefix(fn, "Serializer.") {
			continue // declared section sizes: excluded by the property ("small enough to allocate"), bounded by C19.room
		}
		fd := p.Func(fn)
		if fd == nil || fd.Body == nil {
			continue
		}
		if !strings.Contains(p.Str(fd.Body), "make(") {
			continue
		}
		sps, ok := p.SymPaths(fd, 20000, nil)
		if !ok || len(sps) == 0 {
			c.Undecided("makes:"+fn, p.Pos(fd), "too many paths")
			continue
		}
		bad := ""
		for _, sp := range sps {
			if !sp.Feasible() {
				continue
			}
			for _, ef := range sp.Effects {
				if ef.Kind != "call" || ef.Target != "make" || len(ef.Args) < 2 {
					continue
				}
				for _, sz := range ef.Args[1:] {
					nMakes++
					if sz.IsConst() {
						if sz.K < 0 {
							bad = "a constant negative size"
						}
						continue
					}
					nonneg := sz.K >= 0
					for a, cf := range sz.T {
						if cf < 0 || !(strings.HasPrefix(a, "len(") || strings.HasPrefix(a, "cap(")) {
							nonneg = false
						}
					}
					if nonneg {
						continue
					}
					proved := false
					s := sz.String()
					for _, cd := range sp.Conds {
						if cd.Other != "" || cd.At > ef.At || cd.L.String() != s || !cd.R.IsConst() {
							continue
						}
						if (cd.Op == token.GEQ && cd.R.K >= 0) || (cd.Op == token.GTR && cd.R.K >= -1) || (cd.Op == token.EQL && cd.R.K >= 0) {
							proved = true
						}
					}
					if !proved {
						bad = "make() gets the size " + s + ", which nothing on the path shows to be non-negative" + condsDesc(sp, 3)
					}
				}
			}
		}
		c.Check(bad == "", "makes:"+fn, p.Pos(fd), "every computed make() size is non-negative on its path", fn+": "+bad+" — on a deserialized tape whose entries point behind themselves this is a run-time panic (makeslice: len/cap out of range)", "a blob whose array start entry has an end offset before its own position")
	}
	c.MinCount("computed make() sizes examined", nMakes, 6)
}
