package main

import (
	"go/token"
	"regexp"
	"sort"
	"strings"
)

func init() {
	reg("C19.makes", ruleMakeSizes)
	regWitness(
		Witness{Rule: "C19.makes", Name: "capacity-clamp-removed", File: "parsed_array.go", After: "func (a *Array) AsFloat(", Old: "\tif lenEst < 0 {\n\t\tlenEst = 0\n\t}\n", New: "", Breaks: "an array entry of a corrupt tape that points behind itself makes AsFloat panic (makeslice: cap out of range)"},
	)
}

// C19.makes — a computed length or capacity handed to make() in the traversal/marshal functions (which also run on
// deserialized, possibly corrupt tapes) is known to be non-negative on its path: a constant, a sum of len()/cap()
// terms, or a value the path compared with 0. A negative size is a run-time panic, not an error.
func ruleMakeSizes(c *Ctx) {
	p := c.G()
	scope := append([]string{}, corruptScope...)
	sort.Strings(scope)
	nMakes := 0
	for _, fn := range scope {
		if strings.HasPrefix(fn, "Serializer.") {
			continue // declared section sizes: excluded by the property ("small enough to allocate"), bounded by C19.room
		}
		fd := p.Func(fn)
		if fd == nil || fd.Body == nil {
			continue
		}
		if !strings.Contains(p.Str(fd.Body), "make(") {
			continue
		}
		sps, ok := p.SymPaths(fd, 20000, nil)
		if !ok || len(sps) == 0 {
			c.Undecided("makes:"+fn, p.Pos(fd), "too many paths")
			continue
		}
		bad := ""
		for _, sp := range sps {
			if !sp.Feasible() {
				continue
			}
			for _, ef := range sp.Effects {
				if ef.Kind != "call" || ef.Target != "make" || len(ef.Args) < 2 {
					continue
				}
				for _, sz := range ef.Args[1:] {
					nMakes++
					if sz.IsConst() {
						if sz.K < 0 {
							bad = "a constant negative size"
						}
						continue
					}
					nonneg := sz.K >= 0
					for a, cf := range sz.T {
						if cf < 0 || !(strings.HasPrefix(a, "len(") || strings.HasPrefix(a, "cap(") || isMaxWithZero(a)) {
							nonneg = false
						}
					}
					if nonneg {
						continue
					}
					proved := false
					s := sz.String()
					for _, cd := range sp.Conds {
						if cd.Other != "" || cd.At > ef.At || cd.L.String() != s || !cd.R.IsConst() {
							continue
						}
						if (cd.Op == token.GEQ && cd.R.K >= 0) || (cd.Op == token.GTR && cd.R.K >= -1) || (cd.Op == token.EQL && cd.R.K >= 0) {
							proved = true
						}
					}
					if !proved {
						bad = "make() gets the size " + s + ", which nothing on the path shows to be non-negative" + condsDesc(sp, 3)
					}
				}
			}
		}
		c.Check(bad == "", "makes:"+fn, p.Pos(fd), "every computed make() size is non-negative on its path", fn+": "+bad+" — on a deserialized tape whose entries point behind themselves this is a run-time panic (makeslice: len/cap out of range)", "a blob whose array start entry has an end offset before its own position")
	}
	// a package-level max() the sizes may rely on really is the maximum
	if mfd := p.Func("max"); mfd != nil {
		okMax := false
		if sps, ok := p.SymPaths(mfd, 10, nil); ok && len(sps) == 2 {
			okMax = true
			for _, sp := range sps {
				if len(sp.Ret) != 1 {
					okMax = false
					continue
				}
				r := sp.Ret[0].String()
				gt := hasCond(sp, "P:a", token.GTR, "P:b")
				le := hasCond(sp, "P:a", token.LEQ, "P:b")
				if !(gt && r == "P:a" || le && r == "P:b") {
					okMax = false
				}
			}
		}
		c.Check(okMax, "makes:max", p.Pos(mfd), "max(a, b) returns a when a > b and b otherwise", "the package's max() does not return the larger argument: sizes clamped with max(x, 0) can be negative", "")
	}
	c.MinCount("computed make() sizes examined", nMakes, 6)
}

var reMaxZero = regexp.MustCompile(`^max\((0,.*|.*,0)\)(#\d+)?$`)

// isMaxWithZero: max(x, 0) — the builtin or the package's own two-argument max (C18.ryu compares that one with strconv's).
func isMaxWithZero(a string) bool { return reMaxZero.MatchString(a) }
