package main

// Rule packs per property. A rule is listed only once it is implemented; DESIGN.md §3 maps rules to clauses.

func init() {
	regProp(&PropInfo{ID: "C01",
		Decides:    "Structural necessary conditions of 'Parse accepts exactly RFC 8259 texts with an object/array root': the stage-2 token automaton extracted from unifiedMachine is bisimilar to the RFC push-down automaton for all 256 bytes in every state; validator results are honoured; follow-set, number-class, markup, hex-digit and escape tables equal the RFC classes for all 256 bytes; parseNumber's shape checks (digit after '.'/'-', leading zeros for both signs on both conversion paths) fail closed; stage-1/stage-2 errors reach the caller.",
		NotDecided: []string{"that the SIMD kernels compute the masks their tables imply at every block offset and across carries", "\\u/surrogate distance logic inside the machine code", "strconv's own number grammar (argued: over [0-9.+-eE] with the shape checks it equals the JSON number language)"},
		Assumptions: []string{"go/types resolves the same callees the compiler does", "asm DATA bytes never mentioned are zero (assembler semantics)"},
		Exhaustive: true,
		Quick:      []string{"C01.aut", "C01.tab.follow", "C01.tab.number", "C01.tab.markup", "C01.num.shape", "C01.num.loop"},
	})
	regProp(&PropInfo{ID: "C03",
		Decides:    "The type cascade and overflow-flag discipline of parseNumber on every control-flow path: which strconv conversion may produce which tag and value word, integer attempts first, ErrRange recorded after every failed integer attempt, flag set only for integer notation, length gate admits all int64/uint64 literals; addNumber writes (tag,value) exactly when a tag was produced.",
		NotDecided: []string{"correct rounding inside strconv.ParseFloat (trusted)", "accessor conversions (C12.conv)"},
		Assumptions: []string{"strconv.ParseInt/ParseUint/ParseFloat are correct"},
		Exhaustive: true,
		Quick:      []string{"C03.cascade", "C03.flag", "C03.const", "C03.write", "C01.tab.number", "C01.num.loop"},
	})
}
