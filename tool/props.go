package main

// Rule packs per property. A rule is listed only once it is implemented; DESIGN.md §3 maps rules to clauses.

func init() {
	regProp(&PropInfo{ID: "C01",
		Decides:    "Structural necessary conditions of 'Parse accepts exactly RFC 8259 texts with an object/array root': the stage-2 token automaton extracted from unifiedMachine is bisimilar to the RFC push-down automaton for all 256 bytes in every state; validator results are honoured; follow-set, number-class, markup, hex-digit and escape tables equal the RFC classes for all 256 bytes; parseNumber's shape checks (digit after '.'/'-', leading zeros for both signs on both conversion paths) fail closed; stage-1/stage-2 errors reach the caller.",
		NotDecided: []string{"that the SIMD kernels compute the masks their tables imply at every block offset and across carries", "\\u/surrogate distance logic inside the machine code", "strconv's own number grammar (argued: over [0-9.+-eE] with the shape checks it equals the JSON number language)"},
		Assumptions: []string{"go/types resolves the same callees the compiler does", "asm DATA bytes never mentioned are zero (assembler semantics)"},
		Exhaustive: true,
		Quick:      []string{"C01.aut", "C01.tab.follow", "C01.tab.number", "C01.tab.markup", "C01.num.shape", "C01.num.loop", "C01.err", "C01.end", "C15.reset", "C02.cursor", "C05.const"},
	})
	regProp(&PropInfo{ID: "C03",
		Decides:    "The type cascade and overflow-flag discipline of parseNumber on every control-flow path: which strconv conversion may produce which tag and value word, integer attempts first, ErrRange recorded after every failed integer attempt, flag set only for integer notation, length gate admits all int64/uint64 literals; addNumber writes (tag,value) exactly when a tag was produced.",
		NotDecided: []string{"correct rounding inside strconv.ParseFloat (trusted)", "accessor conversions (C12.conv)"},
		Assumptions: []string{"strconv.ParseInt/ParseUint/ParseFloat are correct"},
		Exhaustive: true,
		Quick:      []string{"C03.cascade", "C03.flag", "C03.const", "C03.write", "C01.tab.number", "C01.num.loop"},
	})
	regProp(&PropInfo{ID: "C02",
		Decides:    "Tape construction attaches every value to the right parent (return constants of scope pushes vs. close dispatch, from the extracted automaton), every walker steps by the entry's true size (size table extracted from calcNext for all 14 tags and both modes; Advance/AdvanceInto/AdvanceIter/NextElementBytes apply it), element iterators are restricted to exactly the element, tag→type table covers every value tag.",
		NotDecided: []string{"stage-1 index production (SIMD)", "unescaping (C04)", "numeric values (C03)", "duplicate-key behaviour of Go maps in Map/Interface"},
		Assumptions: []string{"integer conversions do not wrap for in-range tapes"},
		Exhaustive: true,
		Quick:      []string{"C02.retaddr", "C02.sizeclass", "C02.restrict", "C02.map", "C17.pair", "C02.cursor", "C04.buf"},
	})
	regProp(&PropInfo{ID: "C14",
		Decides:    "Reader/writer agreement on deleted ranges: on a NOP word every reader moves the cursor by exactly the payload from the NOP's own index and then re-examines the landing word; every writer (DeleteElems, SetNull, Deserialize) stores payload end−index with end one past the filled range, over exactly key+value / value.",
		NotDecided: []string{"that callbacks see each member once (follows from the cursor rules plus C12.alt)", "content of surviving members"},
		Assumptions: []string{"README: NOP payload = number of tape entries to skip forward from the NOP word"},
		Exhaustive: true,
		Quick:      []string{"C14.readers", "C14.writers", "C02.sizeclass"},
	})
	regProp(&PropInfo{ID: "C17",
		Decides:    "Every transition of the stage-2 machine writes opening/closing words and annotations as documented (payload 0 at open; closing word holds the start index; opening word gets closing index+1; roots +1), proper nesting by kind, bit layout constants, NOP runs written by Deserialize/DeleteElems/SetNull land one past the run.",
		NotDecided: []string{"that string offsets/lengths are in range for every input (depends on the string kernels)"},
		Assumptions: []string{},
		Exhaustive: true,
		Quick:      []string{"C17.pair", "C17.masks", "C14.writers", "C02.map", "C11.codec"},
	})
	regProp(&PropInfo{ID: "C05",
		Decides:    "Channel hand-off cannot deadlock or leak for any input size: exactly one terminator sent last on every stage-1 path; it is consumed exactly once on every failure path of both branches (blocking drain only while it is outstanding); goroutine joined before return; worst-case number of sends on the synchronous path fits the channel; index-buffer slack covers the unchecked tail call; tail processed from a padded copy; NOP-skipping loops make progress.",
		NotDecided: []string{"memory safety inside the SIMD kernels beyond the slack arithmetic", "time bounds other than loop progress", "bounds of every tape index on the read API (C19.bounds covers the corrupt-tape side)"},
		Assumptions: []string{"every index entry refers to a distinct input byte (stage 1 emits at most one index per byte)"},
		Exhaustive: true,
		Quick:      []string{"C05.term", "C05.drain", "C05.const", "C05.progress", "C01.err", "C02.cursor", "C04.buf", "C19.bounds"},
	})
	regProp(&PropInfo{ID: "C07",
		Decides:    "Structural reasons no interleaving can lose or overwrite an index buffer and both stages terminate on every error path: ring arithmetic (cap+2 <= slots, slot = counter % slots), exactly-once terminator, drain discipline of the consumer goroutine, join before return.",
		NotDecided: []string{"that tape content is identical under all interleavings (follows from the above plus data-race freedom of the asm, which is not analysed)"},
		Assumptions: []string{"Go channel semantics"},
		Exhaustive: true,
		Quick:      []string{"C05.term", "C05.drain", "C05.const", "C02.cursor"},
	})
	regProp(&PropInfo{ID: "C15",
		Decides:    "Definite (re)initialisation of reused parser state on every path before either stage starts: Message, ndjson flag, buffersOffset, channel, initialize() resets of Tape/Strings/scope stack/current index buffer, copy-strings default before options; index channel drained to the terminator on every failure path.",
		NotDecided: []string{"equality of outcomes (behavioural)", "Serializer/Deserialize reuse until C15.ser is built"},
		Assumptions: []string{},
		Exhaustive: true,
		Quick:      []string{"C15.reset", "C05.drain", "C05.term", "C15.ser"},
	})
	regProp(&PropInfo{ID: "C08",
		Decides:    "Where newline becomes a token and how roots are sequenced: ParseND passes ndjson=true and Parse false; the flag is (re)assigned on every path; in the extracted automaton a root must be followed by LF, blank lines are skipped, the old root is closed and a new one opened before the next '{'/'['; inside containers LF has no row.",
		NotDecided: []string{"agreement of the SIMD newline mask with byte-wise splitting (C08.gate, asm, not yet built)", "the empty-input corner"},
		Assumptions: []string{},
		Exhaustive: true,
		Quick:      []string{"C08.rows", "C01.err", "C15.reset", "C01.aut", "C05.const", "C05.term"},
	})
	regProp(&PropInfo{ID: "C04",
		Decides:    "The buffer arithmetic around the string kernels on every path of parseString: padding guarantees a full 32-byte window after the string's maximum extent, the padded copies are large enough and filled, the destination has decoded size + 32 bytes of slack and keeps its content when grown, in-place vs copied payload (STRINGBUFBIT) and the length word are consistent with the mode; the copy decision can only be raised by the validator.",
		NotDecided: []string{"the window/escape-position logic and arithmetic of the machine code for each alignment (no AVX semantics model) — the bulk of the property", "lookup tables of the string kernels until C01.tab.string is built"},
		Assumptions: []string{"the kernels read at most one 32-byte window past the closing quote and store whole 32-byte words"},
		Exhaustive: true,
		Quick:      []string{"C04.buf", "C04.needcopy"},
	})
	regProp(&PropInfo{ID: "C16",
		Decides:    "Copy mode: the copy-strings default is re-established before the options on every call, the option stores its argument, the validator can only raise the copy decision, and parseString writes the in-place payload only when no copy is needed.",
		NotDecided: []string{"observational equality of the two modes", "Clone independence until C16.clone is built"},
		Assumptions: []string{},
		Exhaustive: true,
		Quick:      []string{"C04.buf", "C04.needcopy", "C15.reset", "C16.clone"},
	})
	regProp(&PropInfo{ID: "C11",
		Decides:    "Writer/reader agreement of the wire format, extracted independently from the two tag switches: per tag, value bytes written == required == consumed, tape words skipped == produced, tag byte written == matched (wire-only 'e' exactly for flagged floats, full word preserved), relative offsets taken and restored against the tag's own index (also directly after a flushed NOP run), NOP runs rebuilt with payload end−index; raw-size counters equal the bytes written to each block.",
		NotDecided: []string{"S2/zstd fidelity", "hash-collision behaviour of the string table beyond the bytes.Equal check", "header field order and block framing until C11.header/C11.block are built", "noasm build matrix"},
		Assumptions: []string{"klauspost/compress round-trips blocks"},
		Exhaustive: true,
		Quick:      []string{"C11.codec", "C11.counts", "C11.block", "C15.ser", "C14.writers", "C02.map"},
	})
	regProp(&PropInfo{ID: "C19",
		Decides:    "Every index/slice operation in Deserialize, decBlock and the traversal/marshal API is an obligation proved from the comparisons that precede it on the same path (linear reasoning over the same atoms, additions of two untrusted 64-bit values treated as wrapping); every relative cursor update is non-negative; input lengths are bounded by unsigned comparisons; every decoder goroutine is awaited on every return path; NOP-skipping loops make progress.",
		NotDecided: []string{"allocation size (declared sizes small enough to allocate are a premise of the property)", "internals of s2/zstd decoders"},
		Assumptions: []string{"INV: iterator cursor fields (off) and validated extents (addNext) are non-negative", "one stated invariant for NextElementBytes (dst.off+elemSize is the container end or off+{0,1})"},
		Exhaustive: true,
		Quick:      []string{"C19.bounds", "C19.join", "C11.block", "C05.progress"},
	})
	regProp(&PropInfo{ID: "C13",
		Decides:    "For every Set* method, on every path: the accepted tag set equals the documented one (so a w-word replacement is only applied to entries spanning w words), exactly the tag word / value word / NOP fill of the addressed entry are written with the method's tag and value, string storage is append-only with the offset taken before the append, the iterator's own view is updated, and a call that returns an error has written nothing.",
		NotDecided: []string{"that every read API then shows the new value (C02/C10/C11/C14 rules cover their side)"},
		Assumptions: []string{"the iterator is positioned on a value (off-1 is its tag word)"},
		Exhaustive: true,
		Quick:      []string{"C13.set", "C14.writers", "C02.sizeclass"},
	})
}
