package main

// Rule packs per property. A rule is listed only once it is implemented; DESIGN.md §3 maps rules to clauses.

func init() {
	regProp(&PropInfo{ID: "C01",
		Decides:    "Structural necessary conditions of 'Parse accepts exactly RFC 8259 texts with an object/array root': the stage-2 token automaton extracted from unifiedMachine is bisimilar to the RFC push-down automaton for all 256 bytes in every state; validator results are honoured; follow-set, number-class, markup, hex-digit and escape tables equal the RFC classes for all 256 bytes; parseNumber's shape checks (digit after '.'/'-', leading zeros for both signs on both conversion paths) fail closed; stage-1/stage-2 errors reach the caller.",
		NotDecided: []string{"that the SIMD kernels compute the masks their tables imply at every block offset and across carries", "\\u/surrogate distance logic inside the machine code", "strconv's own number grammar (argued: over [0-9.+-eE] with the shape checks it equals the JSON number language)"},
		Assumptions: []string{"go/types resolves the same callees the compiler does", "asm DATA bytes never mentioned are zero (assembler semantics)"},
		Exhaustive: true,
		Quick:      []string{"C01.aut", "C01.tab.follow", "C01.tab.number", "C01.tab.markup", "C01.num.shape", "C01.num.loop"},
	})
	regProp(&PropInfo{ID: "C03",
		Decides:    "The type cascade and overflow-flag discipline of parseNumber on every control-flow path: which strconv conversion may produce which tag and value word, integer attempts first, ErrRange recorded after every failed integer attempt, flag set only for integer notation, length gate admits all int64/uint64 literals; addNumber writes (tag,value) exactly when a tag was produced.",
		NotDecided: []string{"correct rounding inside strconv.ParseFloat (trusted)", "accessor conversions (C12.conv)"},
		Assumptions: []string{"strconv.ParseInt/ParseUint/ParseFloat are correct"},
		Exhaustive: true,
		Quick:      []string{"C03.cascade", "C03.flag", "C03.const", "C03.write", "C01.tab.number", "C01.num.loop"},
	})
	regProp(&PropInfo{ID: "C02",
		Decides:    "Tape construction attaches every value to the right parent (return constants of scope pushes vs. close dispatch, from the extracted automaton), every walker steps by the entry's true size (size table extracted from calcNext for all 14 tags and both modes; Advance/AdvanceInto/AdvanceIter/NextElementBytes apply it), element iterators are restricted to exactly the element, tag→type table covers every value tag.",
		NotDecided: []string{"stage-1 index production (SIMD)", "unescaping (C04)", "numeric values (C03)", "duplicate-key behaviour of Go maps in Map/Interface"},
		Assumptions: []string{"integer conversions do not wrap for in-range tapes"},
		Exhaustive: true,
		Quick:      []string{"C02.retaddr", "C02.sizeclass", "C02.restrict", "C02.map", "C17.pair"},
	})
	regProp(&PropInfo{ID: "C14",
		Decides:    "Reader/writer agreement on deleted ranges: on a NOP word every reader moves the cursor by exactly the payload from the NOP's own index and then re-examines the landing word; every writer (DeleteElems, SetNull, Deserialize) stores payload end−index with end one past the filled range, over exactly key+value / value.",
		NotDecided: []string{"that callbacks see each member once (follows from the cursor rules plus C12.alt)", "content of surviving members"},
		Assumptions: []string{"README: NOP payload = number of tape entries to skip forward from the NOP word"},
		Exhaustive: true,
		Quick:      []string{"C14.readers", "C14.writers", "C02.sizeclass"},
	})
	regProp(&PropInfo{ID: "C17",
		Decides:    "Every transition of the stage-2 machine writes opening/closing words and annotations as documented (payload 0 at open; closing word holds the start index; opening word gets closing index+1; roots +1), proper nesting by kind, bit layout constants, NOP runs written by Deserialize/DeleteElems/SetNull land one past the run.",
		NotDecided: []string{"that string offsets/lengths are in range for every input (depends on the string kernels)"},
		Assumptions: []string{},
		Exhaustive: true,
		Quick:      []string{"C17.pair", "C17.masks", "C14.writers", "C02.map"},
	})
}
