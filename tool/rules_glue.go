package main

import (
	"fmt"
	"go/ast"
	"go/token"
	"go/types"
	"strings"
)

func init() {
	reg("C11.glue", ruleCodecGlue)
	f := "parsed_serialize.go"
	regWitness(
		Witness{Rule: "C11.glue", Name: "new-string-offset-stale", File: f, After: "func (s *Serializer) indexString(", Old: "\toff = len(s.stringBuf)\n", New: "", Breaks: "a string that is not in the table gets the offset of whatever was probed"},
		Witness{Rule: "C11.glue", Name: "hash-not-masked", File: f, After: "func (s *Serializer) indexString(", Old: "h := memHash(sb) & stringmask", New: "h := memHash(sb) | stringmask", Breaks: "the table index runs past the table"},
		Witness{Rule: "C11.glue", Name: "zstd-error-slot-not-written", File: f, After: "\tcase blockTypeZstd:\n\t\twg.Add(1)", Old: "\t\t\t*dstErr = err\n", New: "", Breaks: "a zstd block that fails to decode is not reported"},
		Witness{Rule: "C11.glue", Name: "zstd-not-decoded", File: f, Old: "\t\t\tdst, err = zDec.DecodeAll(compressed, dst[:0])\n", New: "", Breaks: "zstd blocks are never decoded"},
		Witness{Rule: "C11.glue", Name: "close-error-inverted", File: f, After: "\t\tenc := zEncFast.Get().(*zstd.Encoder)", Old: "\t\t\tif err != nil {\n\t\t\t\treturn nil, err\n\t\t\t}", New: "\t\t\tif err == nil {\n\t\t\t\treturn nil, err\n\t\t\t}", Breaks: "every zstd block comes back as (nil, nil): the blob has empty sections"},
		Witness{Rule: "C11.glue", Name: "block-header-error-inverted", File: f, After: "func (s *Serializer) decBlock(", Old: "\ttyp, err := br.ReadByte()\n\tif err != nil {", New: "\ttyp, err := br.ReadByte()\n\tif err == nil {", Breaks: "every block is refused with a nil error"},
	)
}

// C11.glue — the small pieces between the tape codec and the compressors:
// indexString: table index = hash & (table size − 1); a hit returns the stored offset only after bytes.Equal on exactly
// that range; a miss returns the length of the string buffer before the append, appends the bytes to the buffer and the
// block writer, and records offset+1 in the table.
// decBlock: failed header reads return their error; each decoder goroutine decodes into dst and stores its final error
// in *dstErr. encBlock: each completion closure returns the Close error, and the block's bytes otherwise.
func ruleCodecGlue(c *Ctx) {
	p := c.G()
	// ---- indexString
	if fd := p.Func("Serializer.indexString"); fd != nil {
		tabLen := int64(-1)
		if st, ok := p.Pkg.Types.Scope().Lookup("Serializer").Type().Underlying().(*types.Struct); ok {
			for i := 0; i < st.NumFields(); i++ {
				if st.Field(i).Name() == "stringsTable" {
					if at, ok := st.Field(i).Type().Underlying().(*types.Array); ok {
						tabLen = at.Len()
					}
				}
			}
		}
		sps, ok := p.SymPaths(fd, 1000, nil)
		bad := ""
		if !ok || tabLen <= 0 {
			bad = "paths or table size not resolved"
		}
		h := fmt.Sprintf("(%d&memHash(P:sb))", tabLen-1)
		T := "R.stringsTable[" + h + "]"
		nHit, nMiss := 0, 0
		for _, sp := range sps {
			if !sp.Feasible() || sp.RetNode == nil || len(sp.Ret) != 1 {
				continue
			}
			norm := func(s string) string { return reCallNum.ReplaceAllString(s, "") }
			ret := norm(sp.Ret[0].String())
			equal, differ := false, false
			wantEq := "bytes.Equal(R.stringBuf[" + T + "-1:" + T + "+len(P:sb)-1],P:sb)"
			for _, cd := range sp.Conds {
				o := norm(cd.Other)
				if o == wantEq {
					equal = true
				}
				if o == "!"+wantEq {
					differ = true
				}
				// merged form: if off >= 0 && end <= len(buf) && bytes.Equal(buf[off:end], sb) — its failure is a miss
				if strings.HasPrefix(o, "!(") && strings.HasSuffix(o, "&&"+wantEq+")") {
					differ = true
					continue
				}
				if strings.Contains(o, "bytes.Equal(") && o != wantEq && o != "!"+wantEq {
					bad = "the table hit is compared as " + trunc(o, 120) + ", expected bytes.Equal(stringBuf[off:off+len(sb)], sb) with off = table[hash&mask]−1"
				}
			}
			var stores, writes []string
			for _, ef := range sp.Effects {
				if ef.Kind == "store" && (ef.Target == "R.stringBuf" || ef.Base == "R.stringsTable") {
					stores = append(stores, norm(ef.Target)+"="+norm(ef.Val.String()))
				}
				if ef.Kind == "call" && strings.HasSuffix(ef.Target, "io.Writer).Write") && ef.Base == "R.stringWr" {
					writes = append(writes, norm(ef.Args[0].String()))
				}
			}
			if equal && !differ {
				nHit++
				if ret != T+"-1" || len(stores) != 0 || len(writes) != 0 {
					bad = "a table hit does not simply return the stored offset"
				}
				continue
			}
			nMiss++
			wantStores := []string{"R.stringBuf=append(R.stringBuf,P:sb)", T + "=len(R.stringBuf)+1"}
			if ret != "len(R.stringBuf)" || strings.Join(stores, ";") != strings.Join(wantStores, ";") || len(writes) != 1 || writes[0] != "P:sb" {
				bad = fmt.Sprintf("a new string must get offset len(stringBuf), be appended to the buffer and the block writer and be recorded as offset+1 at table[hash&mask]: returns %s, stores %v, writes %v", ret, stores, writes)
			}
		}
		if bad == "" && (nHit != 1 || nMiss < 1) {
			bad = fmt.Sprintf("expected one hit and at least one miss path, got %d/%d", nHit, nMiss)
		}
		c.Check(bad == "", "indexString:table", p.Pos(fd), "index = hash & (len(table)−1); hit → stored offset after bytes.Equal; miss → len(buffer), append, write, record", "Serializer.indexString: "+bad, "two different strings whose hashes collide; the first string of a document")
	} else {
		c.Unresolved("Serializer.indexString", "function not found")
	}

	// ---- decBlock header errors
	if fd := p.Func("Serializer.decBlock"); fd != nil {
		sps, ok := p.SymPaths(fd, 20000, nil)
		bad := ""
		if !ok {
			bad = "too many paths"
		}
		nFail := 0
		for _, sp := range sps {
			if !sp.Feasible() || sp.RetNode == nil || len(sp.Ret) != 1 {
				continue
			}
			var errs []string
			for _, ef := range sp.Effects {
				if ef.Kind == "call" && (ef.Target == "encoding/binary.ReadUvarint" || strings.HasSuffix(ef.Target, "bytes.Buffer).ReadByte")) {
					errs = append(errs, ef.Val.String()+".1")
				}
			}
			for i, e := range errs {
				isSet, isNil := hasCond(sp, e, token.NEQ, "nil"), hasCond(sp, e, token.EQL, "nil")
				switch {
				case !isSet && !isNil:
					bad = "the error of a block header read is not examined"
				case isSet:
					nFail++
					if i != len(errs)-1 || sp.Ret[0].String() != e {
						bad = "a failed block header read does not return its error at once"
					}
				}
			}
		}
		if bad == "" && nFail < 2 {
			bad = "expected failing paths for the size and the type byte"
		}
		c.Check(bad == "", "decBlock:header-errors", p.Pos(fd), "size and type reads: error examined, returned at once", "Serializer.decBlock: "+bad, "a blob cut inside a block header")
		// the empty block (size 0 for an empty destination — what the writer emits for the unused strings section) is accepted
		nEmpty := 0
		for _, sp := range sps {
			if !sp.Feasible() || sp.RetNode == nil || len(sp.Ret) != 1 || sp.Ret[0].String() != "nil" {
				continue
			}
			sz0, dst0 := false, false
			for _, cd := range sp.Conds {
				if cd.Other == "" && cd.Op == token.EQL && cd.R.IsConst() && cd.R.K == 0 {
					if strings.Contains(cd.L.String(), "ReadUvarint(") {
						sz0 = true
					}
					if cd.L.String() == "len(P:dst)" {
						dst0 = true
					}
				}
			}
			launches := false
			for _, ef := range sp.Effects {
				if ef.Kind == "go" || ef.Kind == "call" && strings.HasSuffix(ef.Target, "bytes.Buffer).Next") {
					launches = true
				}
			}
			if sz0 && dst0 && !launches {
				nEmpty++
			}
		}
		c.Check(nEmpty >= 1, "decBlock:empty-block", p.Pos(fd), "size 0 with an empty destination returns nil without reading further", "Serializer.decBlock has no path that accepts an empty block (declared size 0, empty destination): the writer emits exactly that for the strings section, so every blob would be refused", "any round trip")
		// decoder goroutines: decode into dst, final error into *dstErr as the last action
		nGo := 0
		ast.Inspect(fd.Body, func(n ast.Node) bool {
			gs, ok := n.(*ast.GoStmt)
			if !ok {
				return true
			}
			lit, ok := gs.Call.Fun.(*ast.FuncLit)
			if !ok {
				return true
			}
			nGo++
			okSlot, okDecode := false, false
			errVar := ""
			if len(lit.Body.List) > 0 {
				if as, ok := lit.Body.List[len(lit.Body.List)-1].(*ast.AssignStmt); ok && len(as.Lhs) == 1 && len(as.Rhs) == 1 && p.Str(as.Lhs[0]) == "*dstErr" {
					if id, ok := as.Rhs[0].(*ast.Ident); ok {
						okSlot = true
						errVar = id.Name
					}
				}
			}
			for _, st := range lit.Body.List {
				as, ok := st.(*ast.AssignStmt)
				if !ok || len(as.Rhs) != 1 {
					continue
				}
				call, ok := as.Rhs[0].(*ast.CallExpr)
				if !ok {
					continue
				}
				name := shortCallee(p.CalleeName(call))
				lastLhs := p.Str(as.Lhs[len(as.Lhs)-1])
				switch {
				case name == "io.ReadFull" && len(call.Args) == 2 && p.Str(call.Args[1]) == "dst" && lastLhs == errVar:
					okDecode = true
				case strings.HasSuffix(name, "Decoder).DecodeAll") && len(call.Args) == 2 && p.Str(call.Args[0]) == "compressed" && p.Str(call.Args[1]) == "dst[:0]" && len(as.Lhs) == 2 && p.Str(as.Lhs[0]) == "dst" && lastLhs == errVar:
					okDecode = true
				}
			}
			c.Check(okSlot && okDecode, fmt.Sprintf("decBlock:goroutine#%d:decode-and-report", nGo), p.Pos(lit), "decodes the compressed bytes into dst and stores the resulting error in *dstErr last", "a decoder goroutine of decBlock does not decode into dst with its error ending up in *dstErr", "a compressed block that is damaged")
			return true
		})
		c.MinCount("decBlock decoder goroutines (glue)", nGo, 2)
	} else {
		c.Unresolved("Serializer.decBlock", "function not found")
	}

	// ---- encBlock completion closures
	if fd := p.Func("encBlock"); fd != nil {
		n := 0
		ast.Inspect(fd.Body, func(nd ast.Node) bool {
			lit, ok := nd.(*ast.FuncLit)
			if !ok {
				return true
			}
			n++
			// statements: [err = enc.Close(); if err != nil { return nil, err }] … return dst.Bytes(), nil
			okLast, okClose := false, true
			if l := len(lit.Body.List); l > 0 {
				if rs, ok := lit.Body.List[l-1].(*ast.ReturnStmt); ok && len(rs.Results) == 2 && p.Str(rs.Results[0]) == "dst.Bytes()" && p.Str(rs.Results[1]) == "nil" {
					okLast = true
				}
			}
			for i, st := range lit.Body.List {
				as, ok := st.(*ast.AssignStmt)
				if !ok || len(as.Rhs) != 1 {
					continue
				}
				call, ok := as.Rhs[0].(*ast.CallExpr)
				if !ok || !strings.HasSuffix(p.CalleeName(call), ").Close") {
					continue
				}
				okClose = false
				if i+1 < len(lit.Body.List) {
					if ifs, ok := lit.Body.List[i+1].(*ast.IfStmt); ok {
						if be, ok := ast.Unparen(ifs.Cond).(*ast.BinaryExpr); ok && be.Op == token.NEQ && p.Str(be.X) == p.Str(as.Lhs[0]) && p.Str(be.Y) == "nil" && len(ifs.Body.List) == 1 {
							if rs, ok := ifs.Body.List[0].(*ast.ReturnStmt); ok && len(rs.Results) == 2 && p.Str(rs.Results[0]) == "nil" && p.Str(rs.Results[1]) == p.Str(as.Lhs[0]) {
								okClose = true
							}
						}
					}
				}
			}
			c.Check(okLast && okClose, fmt.Sprintf("encBlock:completion#%d", n), p.Pos(lit), "Close error returned; otherwise (dst.Bytes(), nil)", "a completion closure of encBlock does not return the encoder's Close error and otherwise the block bytes", "any compressed mode")
			return false
		})
		c.MinCount("encBlock completion closures", n, 3)
	} else {
		c.Unresolved("encBlock", "function not found")
	}
}
