package main

import (
	"fmt"
	"go/token"
	"strings"
)

func init() {
	reg("C02.prim", ruleCursorPrimitives)
	f := "parsed_json.go"
	regWitness(
		Witness{Rule: "C02.prim", Name: "advance-ignores-pending-skip", File: f, After: "func (i *Iter) Advance() Type {", Old: "\ti.off += i.addNext\n", New: "", Breaks: "Advance steps into containers instead of over them"},
		Witness{Rule: "C02.prim", Name: "advanceinto-tag-word-not-consumed", File: f, After: "func (i *Iter) AdvanceInto() Tag {", Old: "\t\ti.off++\n\t\tbreak\n", New: "\t\tbreak\n", Breaks: "AdvanceInto delivers the same entry for ever"},
		Witness{Rule: "C02.prim", Name: "end-state-not-recorded", File: f, After: "func (i *Iter) Advance() Type {", Old: "\t\t\ti.t = TagEnd\n", New: "", Breaks: "after the end the iterator still reports the last tag"},
		Witness{Rule: "C02.prim", Name: "peek-past-pending-skip", File: f, After: "func (i *Iter) PeekNextTag() Tag {", Old: "off := i.off + i.addNext", New: "off := i.off", Breaks: "PeekNextTag looks inside the current container"},
		Witness{Rule: "C02.prim", Name: "type-end-test-off-by-one", File: f, After: "func (i *Iter) Type() Type {", Old: "if i.off+i.addNext > len(i.tape.Tape) {", New: "if i.off+i.addNext >= len(i.tape.Tape) {", Breaks: "Type() of the last value on the tape is TypeNone"},
	)
}

// final value of every receiver field written on the path
func finalStores(sp *SymPath) map[string]string {
	m := map[string]string{}
	for _, ef := range sp.Effects {
		if ef.Kind == "store" && strings.HasPrefix(ef.Target, "R.") && ef.Index == nil {
			m[ef.Target] = ef.Val.String()
		}
	}
	return m
}

func hasCond(sp *SymPath, l string, op token.Token, r string) bool {
	for _, cd := range sp.Conds {
		if cd.Other == "" && cd.Op == op && cd.L.String() == l && cd.R.String() == r {
			return true
		}
	}
	return false
}

func callsTo(sp *SymPath, target string) []SymEffect {
	var out []SymEffect
	for _, ef := range sp.Effects {
		if ef.Kind == "call" && ef.Target == target {
			out = append(out, ef)
		}
	}
	return out
}

// C02.prim — contracts of the cursor primitives every traversal is built on (the NOP arms are decided by C14.readers and
// C05.progress, the size table by C02.sizeclass, the restriction of AdvanceIter by C02.restrict):
// entry position E = off + addNext; at E >= len the iterator records the end state (addNext 0, tag TagEnd) and reports
// none; otherwise tag = word>>56, payload = word & JSONVALUEMASK, cursor one past the word, next skip from calcNext
// (into = false for Advance/AdvanceIter, true for AdvanceInto), a negative skip ends the iterator; the peeks look at E
// without writing; Type() is TypeNone exactly when the queued value lies beyond the tape.
func ruleCursorPrimitives(c *Ctx) {
	p := c.G()
	mask, ok := p.PkgConstInt("JSONVALUEMASK")
	if !ok {
		c.Unresolved("JSONVALUEMASK", "constant not found")
		return
	}
	const E = "R.addNext+R.off"
	W := "R.tape.Tape[" + E + "]"
	TAG := "(" + W + ">>56)"
	PAY := fmt.Sprintf("(%d&%s)", mask, W)
	lenT := "len(R.tape.Tape)"

	type spec struct {
		fn       string
		into     string // calcNext argument
		retValue string // value returned on the normal path
		retEnd   string
		results  int
		endOp    token.Token // comparison of E with len that means "end"
	}
	for _, s := range []spec{
		{"Iter.Advance", "false", "TagToType[" + TAG + "]", "0", 1, token.GEQ},
		{"Iter.AdvanceInto", "true", TAG, "0", 1, token.GEQ},
		{"Iter.AdvanceIter", "false", "TagToType[" + TAG + "]", "0", 2, token.EQL},
	} {
		fd := p.Func(s.fn)
		if fd == nil {
			c.Unresolved(s.fn, "function not found")
			continue
		}
		sps, ok := p.SymPaths(fd, 50000, nil)
		if !ok {
			c.Undecided(s.fn+":paths", p.Pos(fd), "too many paths")
			continue
		}
		bad := ""
		nEnd, nVal, nNeg := 0, 0, 0
		for _, sp := range sps {
			if !sp.Feasible() || sp.RetNode == nil || len(sp.Ret) != s.results {
				continue
			}
			// every path starts by applying the pending skip
			first := ""
			for _, ef := range sp.Effects {
				if ef.Kind == "store" && ef.Target == "R.off" {
					first = ef.Val.String()
					break
				}
			}
			if first != E {
				bad = "the pending skip is not applied first (off += addNext): first cursor value " + first
				continue
			}
			if hasCond(sp, TAG, token.EQL, "78") {
				continue // NOP arms: C14.readers / C05.progress
			}
			fin := finalStores(sp)
			isEnd := hasCond(sp, E, s.endOp, lenT)
			if isEnd {
				nEnd++
				if fin["R.addNext"] != "0" || fin["R.t"] != "0" || sp.Ret[0].String() != s.retEnd || (s.results == 2 && !isNilAff(sp.Ret[1])) {
					bad = "at the end of the tape the iterator does not record (addNext 0, tag TagEnd) and report none" + condsDesc(sp, 4)
				}
				continue
			}
			if s.fn == "Iter.AdvanceIter" && hasCond(sp, E, token.GTR, lenT) {
				if isNilAff(sp.Ret[1]) {
					bad = "a cursor beyond the tape is not an error"
				}
				continue
			}
			// a word was read
			cn := callsTo(sp, "Iter.calcNext")
			negSkip := false
			for _, cd := range sp.Conds {
				if cd.Other == "" && cd.Op == token.LSS && strings.Contains(cd.L.String(), "addNext@calcNext") && cd.R.IsConst() && cd.R.K == 0 {
					negSkip = true
				}
			}
			if len(cn) < 1 || cn[0].Base != "R" || len(cn[0].Args) != 1 || cn[0].Args[0].String() != s.into {
				bad = "the next skip is not computed by calcNext(" + s.into + ") on the iterator" + condsDesc(sp, 4)
				continue
			}
			// state before calcNext
			pre := map[string]string{}
			for _, ef := range sp.Effects {
				if ef.At >= cn[0].At {
					break
				}
				if ef.Kind == "store" && strings.HasPrefix(ef.Target, "R.") && ef.Index == nil {
					pre[ef.Target] = ef.Val.String()
				}
			}
			if pre["R.t"] != TAG || pre["R.cur"] != PAY || pre["R.off"] != E+"+1" {
				bad = fmt.Sprintf("before calcNext the iterator must hold tag = word>>56, cur = word&JSONVALUEMASK, off = one past the word; got t=%s cur=%s off=%s", pre["R.t"], pre["R.cur"], pre["R.off"])
				continue
			}
			if negSkip {
				nNeg++
				if len(callsTo(sp, "Iter.moveToEnd")) != 1 || sp.Ret[0].String() != s.retEnd || (s.results == 2 && isNilAff(sp.Ret[1])) {
					bad = "a negative skip does not end the iterator (moveToEnd) and report none/an error"
				}
				continue
			}
			if s.results == 2 && !isNilAff(sp.Ret[1]) {
				continue // AdvanceIter: element beyond tape etc. (C02.restrict / C19.bounds)
			}
			nVal++
			if sp.Ret[0].String() != s.retValue {
				bad = "the delivered value is " + sp.Ret[0].String() + ", expected " + s.retValue
			}
			if s.fn == "Iter.AdvanceIter" {
				// the destination is the iterator itself or a copy of it made after the element was read, then moved
				// into the element (calcNext(true)) and cut at the element's end (C02.restrict decides the extent)
				same := hasCond(sp, "R", token.EQL, "P:dst")
				diff := hasCond(sp, "R", token.NEQ, "P:dst")
				copied := false
				copyAt, into := -1, -1
				for _, ef := range sp.Effects {
					if ef.Kind == "store" && ef.Target == "P:dst" && ef.Val.String() == "R" {
						copied, copyAt = true, ef.At
					}
					if ef.Kind == "call" && ef.Target == "Iter.calcNext" && ef.Base == "P:dst" && len(ef.Args) == 1 && ef.Args[0].String() == "true" {
						into = ef.At
					}
				}
				if same == diff || (diff && !copied) || (same && copied) || (copied && copyAt < cn[0].At) || into < 0 || (copied && into < copyAt) {
					bad = "the destination iterator is not (a copy of) the iterator positioned on the element, moved into it afterwards" + condsDesc(sp, 6)
				}
			}
		}
		if bad == "" && (nEnd < 1 || nVal < 1 || nNeg < 1) {
			bad = fmt.Sprintf("expected end, value and negative-skip paths, got %d/%d/%d", nEnd, nVal, nNeg)
		}
		c.Check(bad == "", s.fn+":contract", p.Pos(fd), "pending skip first; end state at the end; tag/payload/cursor from the word; calcNext("+s.into+"); negative skip ends", s.fn+": "+bad, "any traversal")
	}

	// exact thresholds: a NOP is refused only for payload <= 0, a computed skip only when < 0, an element only when it
	// ends beyond the tape (an element may end exactly at the end)
	maskPrefix := fmt.Sprintf("(%d&", mask)
	for _, fn := range []string{"Iter.Advance", "Iter.AdvanceInto", "Iter.AdvanceIter", "Iter.PeekNext", "Iter.PeekNextTag", "Object.NextElementBytes"} {
		fd := p.Func(fn)
		if fd == nil {
			continue
		}
		sps, ok := p.SymPaths(fd, 50000, nil)
		if !ok {
			continue
		}
		bad := ""
		nNop, nSkip, nExt := 0, 0, 0
		for _, sp := range sps {
			if !sp.Feasible() {
				continue
			}
			for _, cd := range sp.Conds {
				if cd.Other != "" || !cd.R.IsConst() && !strings.HasPrefix(cd.R.String(), "len(") {
					continue
				}
				l := cd.L.String()
				exact0 := cd.R.IsConst() && ((cd.R.K == 0 && (cd.Op == token.LEQ || cd.Op == token.GTR)) || (cd.R.K == 1 && (cd.Op == token.LSS || cd.Op == token.GEQ)))
				switch {
				case strings.HasPrefix(l, maskPrefix) && wholeParen(l) && cd.R.IsConst() && (cd.Op == token.LEQ || cd.Op == token.GTR || cd.Op == token.LSS || cd.Op == token.GEQ || cd.Op == token.EQL || cd.Op == token.NEQ):
					nNop++
					// a masked payload is never negative: `== 0` is the same test as `<= 0`
					if !exact0 && !(cd.R.K == 0 && (cd.Op == token.EQL || cd.Op == token.NEQ)) {
						bad = "a NOP payload is compared with " + cd.String() + ": only payload <= 0 may be refused (a single deleted word has payload 1)"
					}
				case strings.Contains(l, "addNext@calcNext") && !strings.Contains(l, "+") && cd.R.IsConst():
					nSkip++
					if !(cd.R.K == 0 && (cd.Op == token.LSS || cd.Op == token.GEQ)) {
						bad = "the computed skip is tested as " + cd.String() + ": only a negative skip is invalid (scalars without value word and closing tags have skip 0)"
					}
				case fn == "Iter.AdvanceIter" && strings.Contains(l, "addNext@calcNext") && strings.Contains(l, "+") && strings.HasPrefix(cd.R.String(), "len(P:dst.tape.Tape"):
					nExt++
					if !(cd.Op == token.GTR || cd.Op == token.LEQ) {
						bad = "the element extent is tested as " + cd.String() + ": an element may end exactly at the end of the tape"
					}
				}
			}
		}
		need := nNop >= 2
		if fn == "Iter.Advance" || fn == "Iter.AdvanceInto" || fn == "Iter.AdvanceIter" {
			need = need && nSkip >= 2
		}
		if fn == "Iter.AdvanceIter" {
			need = need && nExt >= 2
		}
		if bad == "" && !need {
			bad = fmt.Sprintf("threshold tests not found (nop %d, skip %d, extent %d)", nNop, nSkip, nExt)
		}
		c.Check(bad == "", fn+":thresholds", p.Pos(fd), "NOP refused only for payload <= 0; skip only when < 0; extent only when beyond the tape", fn+": "+bad, "[null] / a value replaced by SetNull (single NOP) / the last element of the document")
	}

	// moveToEnd
	if fd := p.Func("Iter.moveToEnd"); fd != nil {
		sps, _ := p.SymPaths(fd, 100, nil)
		okM := len(sps) == 1
		for _, sp := range sps {
			fin := finalStores(sp)
			if fin["R.off"] != lenT || fin["R.addNext"] != "0" || fin["R.t"] != "0" {
				okM = false
			}
		}
		c.Check(okM, "Iter.moveToEnd:contract", p.Pos(fd), "off = len(tape), addNext = 0, tag = TagEnd", "moveToEnd does not leave the iterator at the end of its tape with no pending skip and tag TagEnd", "a corrupt NOP or container on a deserialized tape")
	} else {
		c.Unresolved("Iter.moveToEnd", "function not found")
	}

	// the peeks: no writes, look at E
	for _, s := range []struct{ fn, ret string }{{"Iter.PeekNext", "TagToType[" + strings.Replace(TAG, E, "L:off", 1) + "]"}, {"Iter.PeekNextTag", strings.Replace(TAG, E, "L:off", 1)}} {
		fd := p.Func(s.fn)
		if fd == nil {
			c.Unresolved(s.fn, "function not found")
			continue
		}
		sps, ok := p.SymPaths(fd, 1000, nil)
		if !ok {
			c.Undecided(s.fn+":paths", p.Pos(fd), "too many paths")
			continue
		}
		bad := ""
		nVal, nEnd := 0, 0
		for _, sp := range sps {
			if !sp.Feasible() || sp.RetNode == nil || len(sp.Ret) != 1 {
				continue
			}
			for _, ef := range sp.Effects {
				if ef.Kind == "store" && strings.HasPrefix(ef.Target, "R.") {
					bad = "a peek writes " + ef.Target
				}
			}
			start := ""
			for _, ef := range sp.Effects {
				if ef.Kind == "store" && ef.Target == "L:off" {
					start = ef.Val.String()
					break
				}
			}
			if start != E {
				bad = "the peek does not start at off + addNext (starts at " + start + ")"
			}
			tagE := strings.Replace(TAG, E, E, 1)
			if hasCond(sp, tagE, token.EQL, "78") {
				continue // NOP arms elsewhere
			}
			if hasCond(sp, E, token.GEQ, lenT) {
				nEnd++
				if sp.Ret[0].String() != "0" {
					bad = "a peek at the end of the tape does not report none"
				}
				continue
			}
			if hasCond(sp, E, token.LSS, lenT) && hasCond(sp, tagE, token.NEQ, "78") {
				nVal++
				want := strings.Replace(s.ret, "L:off", E, 1)
				if sp.Ret[0].String() != want {
					bad = "the peek returns " + sp.Ret[0].String() + ", expected " + want
				}
			}
		}
		if bad == "" && (nVal < 1 || nEnd < 1) {
			bad = fmt.Sprintf("expected value and end paths, got %d/%d", nVal, nEnd)
		}
		c.Check(bad == "", s.fn+":contract", p.Pos(fd), "read-only; looks at off + addNext; none at the end", s.fn+": "+bad, "Array.MarshalJSON / Iter.MarshalJSON separator decisions")
	}

	// Type(): none exactly when the queued value lies beyond the tape
	if fd := p.Func("Iter.Type"); fd != nil {
		sps, _ := p.SymPaths(fd, 100, nil)
		okT := len(sps) == 2
		for _, sp := range sps {
			if len(sp.Ret) != 1 {
				okT = false
				continue
			}
			switch {
			case hasCond(sp, E, token.GTR, lenT):
				okT = okT && sp.Ret[0].String() == "0"
			case hasCond(sp, E, token.LEQ, lenT):
				okT = okT && sp.Ret[0].String() == "TagToType[R.t]"
			default:
				okT = false
			}
		}
		c.Check(okT, "Iter.Type:contract", p.Pos(fd), "TypeNone iff off + addNext > len(tape), else TagToType[t]", "Iter.Type does not report TypeNone exactly when the queued value extends beyond the tape", "Type() of the last scalar of a restricted iterator")
	} else {
		c.Unresolved("Iter.Type", "function not found")
	}
}

// wholeParen: s is one parenthesised expression "( … )" (the first parenthesis closes at the end).
func wholeParen(s string) bool {
	if !strings.HasPrefix(s, "(") {
		return false
	}
	depth := 0
	for i, ch := range s {
		switch ch {
		case '(', '[':
			depth++
		case ')', ']':
			depth--
			if depth == 0 {
				return i == len(s)-1
			}
		}
	}
	return false
}
