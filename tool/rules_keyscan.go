package main

import (
	"fmt"
	"go/token"
	"regexp"
	"strings"
)

func init() {
	reg("C12.keyscan", ruleKeyScanSem)
	f := "parsed_object.go"
	regWitness(
		Witness{Rule: "C12.keyscan", Name: "findkey-returns-non-matching", File: f, After: "func (o *Object) FindKey(", Old: "if string(name) != key {", New: "if string(name) == key {", Breaks: "FindKey returns the first member whose name has the right length but differs"},
		Witness{Rule: "C12.keyscan", Name: "findkey-starts-at-tape-start", File: f, After: "func (o *Object) FindKey(", Old: "\ttmp.off = o.off\n", New: "", Breaks: "FindKey scans from the start of the tape instead of the object"},
		Witness{Rule: "C12.keyscan", Name: "foreach-callback-dropped", File: f, After: "func (o *Object) ForEach(", Old: "\t\tfn(name, tmp)\n", New: "", Breaks: "ForEach never calls back"},
		Witness{Rule: "C12.keyscan", Name: "foreach-early-exit-inverted", File: f, After: "func (o *Object) ForEach(", Old: "if n == len(onlyKeys) {", New: "if n != len(onlyKeys) {", Breaks: "ForEach stops after the first member"},
		Witness{Rule: "C12.keyscan", Name: "foreach-filter-inverted", File: f, After: "func (o *Object) ForEach(", Old: "if _, ok := onlyKeys[string(name)]; !ok {", New: "if _, ok := onlyKeys[string(name)]; ok {", Breaks: "ForEach calls back exactly the members that are not in the filter"},
		Witness{Rule: "C12.keyscan", Name: "delete-callback-inverted", File: f, After: "func (o *Object) DeleteElems(", Old: "if fn == nil || fn(name, tmp) {", New: "if fn == nil || !fn(name, tmp) {", Breaks: "DeleteElems deletes the members the callback wants to keep"},
	)
}

var reAdvNo = regexp.MustCompile(`@Advance#\d+`)

// scanFeat: what one iteration of a member-scanning loop does, read off its symbolic path.
type scanFeat struct {
	sp                         *SymPath
	nAdvance                   int
	keyString, keyNone, keySome bool
	headStop                   bool // typ != TypeString || tape too short
	nameCalled, nameArgsOK     bool
	nameErrNil, nameErrSet     bool
	lenEQ, lenNE               bool
	keyEQ, keyNE               bool
	filterOn, filterOff        bool
	filterHit, filterMiss      bool
	valNone, valSome           bool
	callbacks                  int
	cbArgsOK                   bool
	cbTrue, cbFalse, fnNil     bool
	fnSet                      bool
	earlyEQ, earlyNE           bool
	nopStores                  int
	advIter                    string // AdvanceIter call atom
	advIterErrNil, advIterErr  bool
}

func scanFeatures(sp *SymPath) *scanFeat { return scanFeaturesKey(sp, "P:key") }

func scanFeaturesKey(sp *SymPath, keyAtom string) *scanFeat {
	f := &scanFeat{sp: sp, cbArgsOK: true}
	var advs []string
	nameAtom := ""
	for _, ef := range sp.Effects {
		if ef.Kind == "call" && ef.Base == "L:tmp" && ef.Target == "Iter.Advance" {
			advs = append(advs, ef.Val.String())
		}
		if ef.Kind == "call" && ef.Base == "L:tmp" && ef.Target == "Iter.AdvanceIter" {
			f.advIter = ef.Val.String()
		}
		if ef.Kind == "call" && ef.Target == "ParsedJson.stringByteAt" && len(ef.Args) == 2 {
			f.nameCalled = true
			a0 := reAdvNo.ReplaceAllString(ef.Args[0].String(), "@A")
			a1 := reAdvNo.ReplaceAllString(ef.Args[1].String(), "@A")
			f.nameArgsOK = ef.Base == "L:tmp.tape" && a0 == "L:tmp.cur@A" && a1 == "L:tmp.tape.Tape[L:tmp.off@A]" && len(advs) == 1
			nameAtom = ef.Val.String()
		}
		if ef.Kind == "call" && !ef.InCond && strings.HasPrefix(ef.Target, "var:") {
			f.callbacks++
			if !(len(ef.Args) == 2 && ef.Args[0].String() == nameAtom+".0" && ef.Args[1].String() == "L:tmp" && len(advs) == 2) {
				f.cbArgsOK = false
			}
		}
		if ef.Kind == "store" && strings.HasSuffix(ef.Base, ".Tape") && isNopAff(ef.Val) {
			f.nopStores++
		}
	}
	f.nAdvance = len(advs)
	key, val := "", ""
	if len(advs) > 0 {
		key = advs[0]
	}
	if len(advs) > 1 {
		val = advs[1]
	}
	cbAtomRe := "var:fn(" + nameAtom + ".0,L:tmp)"
	for _, cd := range sp.Conds {
		if cd.Other != "" {
			o := cd.Other
			neg := strings.HasPrefix(o, "!")
			o = strings.TrimPrefix(o, "!")
			switch {
			case strings.HasPrefix(o, "((2!="+key+")||") || strings.HasPrefix(o, "(("+key+"!=2)||"):
				if !neg {
					f.headStop = true
				}
			case nameAtom != "" && o == "P:onlyKeys[string("+nameAtom+".0)].1":
				f.filterHit = f.filterHit || !neg
				f.filterMiss = f.filterMiss || neg
			case nameAtom != "" && strings.HasPrefix(o, cbAtomRe):
				// `if fn(name, tmp)` – the callback is the condition itself
				f.callbacks++
				f.cbTrue = f.cbTrue || !neg
				f.cbFalse = f.cbFalse || neg
			case nameAtom != "" && strings.HasPrefix(o, "((P:fn==nil)||"+cbAtomRe):
				// fn == nil || fn(name, tmp): deletion wanted (either way) / not wanted
				if !neg {
					f.cbTrue = true
				} else {
					f.cbFalse = true
				}
				f.callbacks++
			}
			continue
		}
		l, r := cd.L.String(), cd.R.String()
		switch {
		case l == key && cd.R.IsConst() && cd.R.K == 2:
			f.keyString = f.keyString || cd.Op == token.EQL
		case l == key && cd.R.IsConst() && cd.R.K == 0:
			f.keyNone = f.keyNone || cd.Op == token.EQL
			f.keySome = f.keySome || cd.Op == token.NEQ
		case val != "" && l == val && cd.R.IsConst() && cd.R.K == 0:
			f.valNone = f.valNone || cd.Op == token.EQL
			f.valSome = f.valSome || cd.Op == token.NEQ
		case nameAtom != "" && l == nameAtom+".1" && r == "nil":
			f.nameErrNil = f.nameErrNil || cd.Op == token.EQL
			f.nameErrSet = f.nameErrSet || cd.Op == token.NEQ
		case r == "len("+keyAtom+")" && reAdvNo.ReplaceAllString(l, "@A") == "L:tmp.tape.Tape[L:tmp.off@A]":
			f.lenEQ = f.lenEQ || cd.Op == token.EQL
			f.lenNE = f.lenNE || cd.Op == token.NEQ
		case nameAtom != "" && l == "string("+nameAtom+".0)" && r == keyAtom:
			f.keyEQ = f.keyEQ || cd.Op == token.EQL
			f.keyNE = f.keyNE || cd.Op == token.NEQ
		case l == "len(P:onlyKeys)" && cd.R.IsConst() && cd.R.K == 0:
			f.filterOn = f.filterOn || cd.Op == token.GTR
			f.filterOff = f.filterOff || cd.Op == token.LEQ || cd.Op == token.EQL
		case l == "L:n+1" && r == "len(P:onlyKeys)":
			f.earlyEQ = f.earlyEQ || cd.Op == token.EQL
			f.earlyNE = f.earlyNE || cd.Op == token.NEQ
		case l == "P:fn" && r == "nil":
			f.fnNil = f.fnNil || cd.Op == token.EQL
			f.fnSet = f.fnSet || cd.Op == token.NEQ
		case f.advIter != "" && l == f.advIter+".1" && r == "nil":
			f.advIterErrNil = f.advIterErrNil || cd.Op == token.EQL
			f.advIterErr = f.advIterErr || cd.Op == token.NEQ
		}
	}
	return f
}

// C12.keyscan — FindKey, ForEach and DeleteElems on objects: the scan starts at the object, a member's name is the
// string at (cur, Tape[off]) of the key entry, and what happens to a member is decided by exactly the documented test
// (equal key / key in the filter / callback result); every way out of the loop has its documented reason.
func ruleKeyScanSem(c *Ctx) {
	p := c.G()
	findPathScan(c, p)
	for _, fn := range []string{"Object.FindKey", "Object.ForEach", "Object.DeleteElems"} {
		fd := p.Func(fn)
		if fd == nil {
			c.Unresolved(fn, "function not found")
			continue
		}
		loop := outerLoop(fd)
		if loop == nil {
			c.Unresolved(fn+":loop", "scan loop not found")
			continue
		}
		// the scan starts at the object: tmp is a fresh iterator of the object's tape positioned at o.off
		fg := p.FGOf(fd)
		head := fg.LoopHead(loop)
		pre, ok := fg.EnumSegment(0, 0, map[int]bool{head: true}, 1000)
		startOK := ok && len(pre) > 0
		for _, pa := range pre {
			env := p.NewFuncEnv(fd)
			sp := p.ExecPath(pa, env)
			off, iter := "", ""
			for _, ef := range sp.Effects {
				if ef.Kind == "store" && ef.Target == "L:tmp" {
					iter = reCallNum.ReplaceAllString(ef.Val.String(), "")
				}
				if ef.Kind == "store" && (ef.Target == "L:tmp.off" || strings.HasSuffix(ef.Target, ".off") && strings.Contains(ef.Target, "Iter()")) {
					off = ef.Val.String()
				}
			}
			if off != "R.off" || iter != "R.tape.ParsedJson.Iter()" {
				startOK = false
			}
			for _, ef := range sp.Effects {
				if ef.Kind == "store" && ef.Target == "L:n" && ef.Val.String() != "0" {
					startOK = false // the count of handled filter keys starts at 0
				}
			}
		}
		c.Check(startOK, fn+":start", p.Pos(fd), "scans a fresh iterator of the object's tape positioned at the object's first member",
			fn+" does not start its scan at the object (tmp := o.tape.Iter(); tmp.off = o.off)", "an object that is not the first thing on the tape")

		sps := p.LoopSegmentPaths(fd, loop, 50000)
		if len(sps) == 0 {
			c.Undecided(fn+":paths", p.Pos(fd), "no loop paths")
			continue
		}
		bad := map[string]string{}
		note := func(site, msg string, sp *SymPath) {
			if _, dup := bad[site]; !dup {
				bad[site] = msg + condsDesc(sp, 8)
			}
		}
		nMatch, nCont, nCb, nEarly := 0, 0, 0, 0
		for _, sp := range sps {
			if !sp.Feasible() {
				continue
			}
			f := scanFeatures(sp)
			isErr := len(sp.Ret) >= 1 && !isNilAff(sp.Ret[len(sp.Ret)-1]) && fn != "Object.FindKey"
			retNil := sp.RetNode != nil && len(sp.Ret) >= 1 && isNilAff(sp.Ret[len(sp.Ret)-1])
			// the name of a member
			if f.nameCalled && !f.nameArgsOK {
				note("name", "the member name is not read as stringByteAt(cur, Tape[off]) of the key entry just delivered by Advance", sp)
			}
			passedHead := f.keyString && !f.headStop
			switch fn {
			case "Object.FindKey":
				matched := passedHead && f.nameErrNil && f.keyEQ && !f.keyNE && (f.lenEQ || !f.lenNE)
				mismatch := passedHead && (f.lenNE || (f.nameErrNil && f.keyNE))
				if sp.Continues {
					nCont++
					if !mismatch || f.keyEQ {
						note("continue", "the scan moves on to the next member without having found the name different from the key", sp)
					}
					if f.nAdvance != 2 || (f.valNone && !f.valSome) {
						note("continue", "a mismatching member's value is not skipped with exactly one Advance", sp)
					}
					continue
				}
				if !retNil {
					nMatch++
					// found: must be a match, filled from AdvanceIter on the value
					okFill := false
					var nameSt, typeSt string
					for _, ef := range sp.Effects {
						if ef.Kind == "store" && strings.HasSuffix(ef.Target, ".Name") {
							nameSt = ef.Val.String()
						}
						if ef.Kind == "store" && strings.HasSuffix(ef.Target, ".Type") {
							typeSt = ef.Val.String()
						}
					}
					okFill = nameSt == "P:key" && f.advIter != "" && typeSt == f.advIter+".0" && f.advIterErrNil && strings.Contains(f.advIter, "AdvanceIter(&P:dst.Iter)") || nameSt == "P:key" && f.advIter != "" && typeSt == f.advIter+".0" && f.advIterErrNil && strings.Contains(f.advIter, "AdvanceIter(&")
					if !matched {
						note("found", "an element is returned for a member whose name was not found equal to the key", sp)
					}
					ret := sp.Ret[0].String()
					dstNil := hasCond(sp, "P:dst", token.EQL, "nil")
					dstSet := hasCond(sp, "P:dst", token.NEQ, "nil")
					if !(dstNil && strings.HasPrefix(ret, "&lit:Element{") || dstSet && ret == "P:dst") {
						note("found", "the result is not the supplied destination, or a fresh Element when none was supplied", sp)
					}
					if !okFill || f.nAdvance != 1 {
						note("found", "the returned element is not {Name: key, Type/Iter: AdvanceIter of the member's value}", sp)
					}
					continue
				}
				// nil: needs a reason
				reason := f.headStop || f.nameErrSet || f.advIterErr || f.valNone
				if !reason {
					note("notfound", "nil is returned although the key was found and no error occurred (or without any stop reason)", sp)
				}
			default: // ForEach / DeleteElems
				selected := passedHead && f.nameErrNil && (f.filterOff || (f.filterOn && f.filterHit)) && !f.filterMiss
				skipped := passedHead && f.nameErrNil && f.filterOn && f.filterMiss
				if f.callbacks > 0 {
					nCb++
					if !selected || !f.valSome || f.callbacks != 1 || !f.cbArgsOK {
						note("callback", "the callback is not made exactly once with (name, iterator on the value) for a member that passed the filter", sp)
					}
				}
				if fn == "Object.DeleteElems" {
					if f.fnNil && f.callbacks > 0 {
						note("delete", "the callback is invoked although it is nil", sp)
					}
					want := selected && f.valSome && (f.fnNil || f.cbTrue) && !f.cbFalse
					if (f.nopStores > 0) != want && !(want && f.nopStores == 0 && emptyFill(sp)) {
						if f.nopStores > 0 {
							note("delete", "a member is overwritten with NOPs although it was not selected (filter miss, callback false or end of object)", sp)
						} else {
							note("delete", "a selected member (fn nil or fn true) is not deleted", sp)
						}
					}
				}
				if sp.Continues {
					nCont++
					switch {
					case skipped:
						if f.callbacks != 0 || f.nAdvance != 2 {
							note("skip", "a member outside the filter is not simply stepped over", sp)
						}
						// the count of handled filter keys moves only for members that passed the filter
						for _, ef := range sp.Effects {
							if ef.Kind == "store" && ef.Target == "L:n" {
								note("count", "a member outside the filter is counted as a handled filter key: the early exit (n == len(onlyKeys)) then fires before all requested members were seen", sp)
							}
						}
					case selected && f.valSome:
						if fn == "Object.ForEach" && f.callbacks != 1 {
							note("callback", "a member that passed the filter is not called back", sp)
						}
						if f.earlyEQ {
							note("early", "the scan continues although all filtered keys have been handled", sp)
						}
					default:
						note("continue", "the scan continues without having classified the member (selected or skipped)", sp)
					}
					continue
				}
				if isErr {
					if !(f.nameErrSet || (f.headStop && f.keySome)) {
						note("error", "an error is returned without a name error or an unexpected name tag", sp)
					}
					continue
				}
				// nil return: end of object, end after a value, or all filter keys handled
				switch {
				case f.headStop && f.keyNone, f.valNone:
				case selected && f.valSome && f.earlyEQ:
					nEarly++
				default:
					note("return", "the scan ends successfully without having reached the end of the object or handled all filter keys", sp)
				}
			}
		}
		if fn == "Object.FindKey" {
			if nMatch < 1 || nCont < 2 {
				bad["shape"] = fmt.Sprintf("expected at least one found-path and two continue-paths, got %d/%d", nMatch, nCont)
			}
		} else if nCb < 1 || nCont < 2 || nEarly < 1 {
			bad["shape"] = fmt.Sprintf("expected callback, continue and early-exit paths, got %d/%d/%d", nCb, nCont, nEarly)
		}
		sites := []string{"name", "continue", "found", "notfound", "callback", "delete", "skip", "count", "early", "error", "return", "shape"}
		for _, s := range sites {
			if fn == "Object.FindKey" && (s == "callback" || s == "delete" || s == "skip" || s == "count" || s == "early" || s == "error" || s == "return") {
				continue
			}
			if fn != "Object.FindKey" && (s == "found" || s == "notfound") {
				continue
			}
			if fn == "Object.ForEach" && s == "delete" {
				continue
			}
			msg, isBad := bad[s]
			c.Check(!isBad, fn+":scan:"+s, p.Pos(fd), "as documented on every path of one iteration", fn+": "+msg, `{"a":1,"bb":2,"cc":3} with key "cc" / filter {"bb"}`)
		}
	}
}

// emptyFill: the fill loop was entered with an empty range on this path (end <= start), which is infeasible for a real
// member (every member has at least two words) but appears as a path.
func emptyFill(sp *SymPath) bool {
	for _, cd := range sp.Conds {
		if cd.Other == "" && cd.Op == token.GEQ && strings.Contains(cd.L.String(), "L:tmp.off@Advance") && strings.Contains(cd.R.String(), "L:tmp.addNext@Advance") {
			return true
		}
	}
	return false
}


// findPathScan — Object.FindPath: like FindKey per level; a matching member ends the search when the path is used up
// (element filled from AdvanceIter on the value) and otherwise must be an object that the scan descends into with the
// next path component as the new key.
func findPathScan(c *Ctx, p *GoProg) {
	fn := "Object.FindPath"
	fd := p.Func(fn)
	if fd == nil {
		c.Unresolved(fn, "function not found")
		return
	}
	loop := outerLoop(fd)
	if loop == nil {
		c.Unresolved(fn+":loop", "scan loop not found")
		return
	}
	objType, ok := p.PkgConstInt("TypeObject")
	if !ok {
		c.Unresolved("TypeObject", "constant not found")
		return
	}
	fg := p.FGOf(fd)
	head := fg.LoopHead(loop)
	pre, okp := fg.EnumSegment(0, 0, map[int]bool{head: true}, 1000)
	startOK := okp && len(pre) >= 2
	nEmpty := 0
	for _, pa := range pre {
		env := p.NewFuncEnv(fd)
		sp := p.ExecPath(pa, env)
		if sp.RetNode != nil {
			// empty path: not found
			nEmpty++
			if !(hasCond(sp, "len(P:path)", token.EQL, "0") && len(sp.Ret) == 2 && sp.Ret[0].String() == "P:dst" && sp.Ret[1].String() == "ErrPathNotFound") {
				startOK = false
			}
			continue
		}
		st := map[string]string{}
		for _, ef := range sp.Effects {
			if ef.Kind == "store" {
				st[ef.Target] = reCallNum.ReplaceAllString(ef.Val.String(), "")
			}
		}
		off := st["L:tmp.off"]
		if off == "" {
			for k, v := range st {
				if strings.HasSuffix(k, ".off") && strings.Contains(k, "Iter()") {
					off = v
				}
			}
		}
		if off != "R.off" || st["L:tmp"] != "R.tape.ParsedJson.Iter()" || st["L:key"] != "P:path[0]" || st["P:path"] != "P:path[1:]" {
			startOK = false
		}
	}
	c.Check(startOK && nEmpty == 1, fn+":start", p.Pos(fd), "empty path → not found; scan starts at the object with key = path[0], rest = path[1:]", fn+" does not start as documented (empty path, iterator at the object, first component as key)", "FindPath(nil, \"a\", \"b\")")

	sps := p.LoopSegmentPaths(fd, loop, 50000)
	bad := map[string]string{}
	note := func(site, msg string, sp *SymPath) {
		if _, dup := bad[site]; !dup {
			bad[site] = msg + condsDesc(sp, 8)
		}
	}
	nFound, nDescend, nCont := 0, 0, 0
	for _, sp := range sps {
		if !sp.Feasible() {
			continue
		}
		f := scanFeaturesKey(sp, "L:key")
		if f.nameCalled && !f.nameArgsOK {
			note("name", "the member name is not read as stringByteAt(cur, Tape[off]) of the key entry just delivered by Advance", sp)
		}
		passedHead := f.keyString && !f.headStop
		matched := passedHead && f.nameErrNil && f.keyEQ && !f.keyNE && (f.lenEQ || !f.lenNE)
		mismatch := passedHead && (f.lenNE || (f.nameErrNil && f.keyNE))
		lastComp := hasCond(sp, "len(P:path)", token.EQL, "0")
		moreComp := hasCond(sp, "len(P:path)", token.NEQ, "0")
		if sp.Continues {
			nCont++
			switch {
			case mismatch && !f.keyEQ:
				if f.nAdvance != 2 || (f.valNone && !f.valSome) || f.advIter != "" {
					note("continue", "a mismatching member's value is not skipped with exactly one Advance", sp)
				}
			case matched && moreComp:
				nDescend++
				desc := strings.Contains(f.advIter, "AdvanceIter(&L:tmp)") && f.advIterErrNil && hasCond(sp, f.advIter+".0", token.EQL, fmt.Sprint(objType)) && f.nAdvance == 1
				var keySt, pathSt string
				for _, ef := range sp.Effects {
					if ef.Kind == "store" && ef.Target == "L:key" {
						keySt = ef.Val.String()
					}
					if ef.Kind == "store" && ef.Target == "P:path" {
						pathSt = ef.Val.String()
					}
				}
				if !desc || keySt != "P:path[0]" || pathSt != "P:path[1:]" {
					note("descend", "a matching member with path left is not entered with AdvanceIter(&tmp) (must be an object) and the next component as key", sp)
				}
			default:
				note("continue", "the scan continues without a name mismatch or a descent into a matching object", sp)
			}
			continue
		}
		if sp.RetNode == nil || len(sp.Ret) != 2 {
			continue
		}
		errS := sp.Ret[1].String()
		// `return dst, err` straight after `…, err = tmp.AdvanceIter(&dst.Iter)` is the pair `if err != nil { return dst,
		// err }; return dst, nil` in one statement: its failing half returns exactly the AdvanceIter error, its other half
		// is the success path and is checked as such
		bothHalves := f.advIter != "" && !f.advIterErr && !f.advIterErrNil && reCallNum.ReplaceAllString(errS, "") == reCallNum.ReplaceAllString(f.advIter+".1", "")
		if bothHalves {
			f.advIterErrNil = true
		}
		switch {
		case isNilAff(sp.Ret[1]) || bothHalves:
			nFound++
			var nameSt, typeSt string
			for _, ef := range sp.Effects {
				if ef.Kind == "store" && strings.HasSuffix(ef.Target, ".Name") {
					nameSt = ef.Val.String()
				}
				if ef.Kind == "store" && strings.HasSuffix(ef.Target, ".Type") {
					typeSt = ef.Val.String()
				}
			}
			ret := sp.Ret[0].String()
			dstNil := hasCond(sp, "P:dst", token.EQL, "nil")
			dstSet := hasCond(sp, "P:dst", token.NEQ, "nil")
			if !(matched && lastComp) {
				note("found", "success is reported without the last path component having matched a member name", sp)
			}
			if !(nameSt == "L:key" && f.advIter != "" && strings.Contains(f.advIter, "AdvanceIter(&P:dst.Iter)") && typeSt == f.advIter+".0" && f.advIterErrNil && f.nAdvance == 1) {
				note("found", "the returned element is not {Name: key, Type/Iter: AdvanceIter of the member's value}", sp)
			}
			if !(dstNil && strings.HasPrefix(ret, "&lit:Element{") || dstSet && ret == "P:dst") {
				note("found", "the result is not the supplied destination, or a fresh Element when none was supplied", sp)
			}
		case errS == "ErrPathNotFound":
			if !(f.headStop || f.valNone) {
				note("notfound", "ErrPathNotFound is returned without the object having ended", sp)
			}
		case f.nameErrSet:
			if errS != strings.TrimSuffix(errS, "") || !strings.Contains(errS, "stringByteAt") {
				note("error", "a name error is not returned", sp)
			}
		case f.advIterErr:
			if errS != f.advIter+".1" {
				note("error", "an AdvanceIter error is not returned", sp)
			}
		case matched && moreComp && f.advIterErrNil && hasCond(sp, f.advIter+".0", token.NEQ, fmt.Sprint(objType)):
			// non-object on the path: a fresh error
		default:
			note("error", "an error is returned without a reason the documentation names", sp)
		}
	}
	if nFound < 2 || nDescend < 1 || nCont < 3 {
		bad["shape"] = fmt.Sprintf("expected found/descend/continue paths, got %d/%d/%d", nFound, nDescend, nCont)
	}
	for _, s := range []string{"name", "continue", "descend", "found", "notfound", "error", "shape"} {
		msg, isBad := bad[s]
		c.Check(!isBad, fn+":scan:"+s, p.Pos(fd), "as documented on every path of one iteration", fn+": "+msg, `{"a":{"b":1,"c":2},"ab":3} with path a/c`)
	}
}
