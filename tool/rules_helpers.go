package main

import (
	"fmt"
	"go/token"
	"strings"
)

func init() {
	reg("C17.helpers", ruleTapeHelpers)
	f := "parsed_json.go"
	regWitness(
		Witness{Rule: "C17.helpers", Name: "tag-shifted-right", File: f, Old: "pj.Tape = append(pj.Tape, val|(uint64(c)<<56))", New: "pj.Tape = append(pj.Tape, val|(uint64(c)>>56))", Breaks: "every container/string/atom word loses its tag"},
		Witness{Rule: "C17.helpers", Name: "annotation-overwrites", File: f, Old: "pj.Tape[saved_loc] |= val", New: "pj.Tape[saved_loc] = val", Breaks: "opening words lose their tag when the end offset is annotated"},
		Witness{Rule: "C17.helpers", Name: "flags-contains-any", File: f, Old: "return FloatFlag(f)&flag == flag", New: "return FloatFlag(f)|flag == flag", Breaks: "FloatFlags.Contains is true for flag sets that lack the flag"},
		Witness{Rule: "C17.helpers", Name: "min-is-max", File: "appendfloat_f.go", After: "func min(a, b int) int {", Old: "if a < b {", New: "if a > b {", Breaks: "appendFloatF pads with the wrong number of digits"},
		Witness{Rule: "C17.helpers", Name: "number-text-empty", File: "parse_number.go", Old: "\tstringHeader.Len = length\n", New: "", Breaks: "strconv sees an empty string for every number"},
	)
}

// C17.helpers — the one-line helpers everything else leans on: the tape writers append exactly (payload | tag<<56),
// (tag<<56, value), (id, value); the annotation ORs into the saved word; the current location is the tape length;
// FloatFlags.Contains tests all bits of the flag; min/max are min/max; unsafeBytesToString views exactly the bytes.
func ruleTapeHelpers(c *Ctx) {
	p := c.G()
	single := func(fn string) *SymPath {
		fd := p.Func(fn)
		if fd == nil {
			c.Unresolved(fn, "function not found")
			return nil
		}
		sps, ok := p.SymPaths(fd, 100, nil)
		if !ok || len(sps) != 1 {
			c.Undecided(fn+":paths", p.Pos(fd), "expected a straight-line function")
			return nil
		}
		return sps[0]
	}
	appendSpec := map[string]string{
		"ParsedJson.write_tape":           "append(R.Tape,((P:c<<56)|P:val))",
		"ParsedJson.writeTapeTagVal":      "append(R.Tape,(P:tag<<56),P:val)",
		"ParsedJson.writeTapeTagValFlags": "append(R.Tape,P:id,P:val)",
	}
	for _, fn := range []string{"ParsedJson.write_tape", "ParsedJson.writeTapeTagVal", "ParsedJson.writeTapeTagValFlags"} {
		sp := single(fn)
		if sp == nil {
			continue
		}
		got, n := "", 0
		for _, ef := range sp.Effects {
			if ef.Kind == "store" {
				n++
				if ef.Target == "R.Tape" {
					got = reCallNum.ReplaceAllString(ef.Val.String(), "")
				}
			}
		}
		c.Check(n == 1 && got == appendSpec[fn], fn+":append", p.Pos(p.Func(fn)), "pj.Tape = "+appendSpec[fn], fn+" stores "+got+" (and "+itoa(n)+" stores in all), expected exactly pj.Tape = "+appendSpec[fn], "any document")
	}
	if sp := single("ParsedJson.annotate_previousloc"); sp != nil {
		okA := false
		n := 0
		for _, ef := range sp.Effects {
			if ef.Kind == "store" {
				n++
				okA = ef.Target == "R.Tape[P:saved_loc]" && ef.Val.String() == "(P:val|R.Tape[P:saved_loc])"
			}
		}
		c.Check(okA && n == 1, "ParsedJson.annotate_previousloc:or", p.Pos(p.Func("ParsedJson.annotate_previousloc")), "pj.Tape[saved_loc] |= val", "annotate_previousloc does not OR the value into the saved word (the word's tag byte must survive)", "any container")
	}
	if sp := single("ParsedJson.get_current_loc"); sp != nil {
		c.Check(len(sp.Ret) == 1 && sp.Ret[0].String() == "len(R.Tape)", "ParsedJson.get_current_loc:len", p.Pos(p.Func("ParsedJson.get_current_loc")), "len(pj.Tape)", "get_current_loc does not return the tape length", "any container")
	}
	for _, w := range [][3]string{{"ParsedJson.write_tape_double", "100", "math.Float64bits(P:d)"}, {"ParsedJson.write_tape_s64", "108", "P:val"}} {
		fn, want := w[0], [2]string{w[1], w[2]}
		if p.Func(fn) == nil {
			continue // optional convenience wrappers
		}
		if sp := single(fn); sp != nil {
			cs := callsTo(sp, "ParsedJson.writeTapeTagVal")
			okW := len(cs) == 1 && len(cs[0].Args) == 2 && cs[0].Args[0].String() == want[0] && cs[0].Args[1].String() == want[1]
			c.Check(okW, fn+":wrap", p.Pos(p.Func(fn)), "writeTapeTagVal("+want[0]+", "+want[1]+")", fn+" does not forward to writeTapeTagVal with its own tag and the value bits", "")
		}
	}
	if sp := single("FloatFlags.Contains"); sp != nil {
		c.Check(len(sp.Ret) == 1 && sp.Ret[0].String() == "((P:flag&R)==P:flag)", "FloatFlags.Contains:mask", p.Pos(p.Func("FloatFlags.Contains")), "f&flag == flag", "FloatFlags.Contains is not (f & flag) == flag: got "+sp.Ret[0].String(), "FloatFlags(0).Contains(FloatOverflowedInteger)")
	}
	for _, mm := range []struct {
		fn string
		op token.Token
	}{{"min", token.LSS}, {"max", token.GTR}} {
		fd := p.Func(mm.fn)
		if fd == nil {
			continue
		}
		sps, _ := p.SymPaths(fd, 10, nil)
		okM := len(sps) == 2
		for _, sp := range sps {
			if len(sp.Ret) != 1 || len(sp.Conds) != 1 || sp.Conds[0].Other != "" {
				okM = false
				continue
			}
			cd := sp.Conds[0]
			// normalise to "a OP b"
			l, r, op := cd.L.String(), cd.R.String(), cd.Op
			if l == "P:b" && r == "P:a" {
				l, r = r, l
				op = map[token.Token]token.Token{token.LSS: token.GTR, token.GTR: token.LSS, token.LEQ: token.GEQ, token.GEQ: token.LEQ}[op]
			}
			if l != "P:a" || r != "P:b" {
				okM = false
				continue
			}
			aWins := sp.Ret[0].String() == "P:a"
			var strictA, weakA, strictB, weakB token.Token
			if mm.fn == "min" {
				strictA, weakA, strictB, weakB = token.LSS, token.LEQ, token.GTR, token.GEQ
			} else {
				strictA, weakA, strictB, weakB = token.GTR, token.GEQ, token.LSS, token.LEQ
			}
			if aWins && !(op == strictA || op == weakA) || !aWins && !(op == strictB || op == weakB) {
				okM = false
			}
		}
		c.Check(okM, mm.fn+":order", p.Pos(fd), mm.fn+"(a, b) returns the "+mm.fn+"imum", mm.fn+" does not return the "+mm.fn+"imum of its arguments", "appendFloatF digit padding")
	}
	if fd := p.Func("unsafeBytesToString"); fd != nil {
		sps, _ := p.SymPaths(fd, 10, nil)
		okU := len(sps) >= 1
		nView := 0
		for _, sp := range sps {
			if hasCond(sp, "len(P:b)", token.EQL, "0") {
				okU = okU && len(sp.Ret) == 1 && sp.Ret[0].String() == `""`
				continue
			}
			var data, ln string
			for _, ef := range sp.Effects {
				if ef.Kind == "store" && strings.HasSuffix(ef.Target, ".Data") {
					data = ef.Val.String()
				}
				if ef.Kind == "store" && strings.HasSuffix(ef.Target, ".Len") {
					ln = ef.Val.String()
				}
			}
			nView++
			// either the string header is filled by hand, or unsafe.String(&b[0], len(b)) is returned
			viaBuiltin := len(sp.Ret) == 1 && reCallNum.ReplaceAllString(sp.Ret[0].String(), "") == "String(&P:b[0],len(P:b))"
			okU = okU && (viaBuiltin || data == "uintptr(Pointer(&P:b[0]))" && ln == "len(P:b)")
		}
		c.Check(okU && nView >= 1, "unsafeBytesToString:view", p.Pos(fd), "string header = (&b[0], len(b)); empty for an empty slice", "unsafeBytesToString does not view exactly the bytes of its argument", "every number literal")
	} else {
		c.Unresolved("unsafeBytesToString", "function not found")
	}
}

func itoa(n int) string { return fmt.Sprint(n) }
