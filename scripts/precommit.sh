#!/bin/bash
# build the checker, run all 20 quick checks on the current /repo tree, regenerate MANIFEST.json; non-zero exit if anything is not green
set -u
export GOFLAGS=-mod=mod GOPROXY=off GOSUMDB=off GOTOOLCHAIN=local GOWORK=off
cd /verif/tool && go build -o /verif/bin/simdvet . || exit 1
cd /verif
git -C /repo diff --quiet || { echo "/repo has local changes"; exit 2; }
rc=0
for i in 01 02 03 04 05 06 07 08 09 10 11 12 13 14 15 16 17 18 19 20; do
  out=$(bin/simdvet check C$i 2>&1); r=$?
  echo "$out" | tail -1
  if [ $r -ne 0 ]; then rc=1; echo "$out" | grep -m3 "VIOLATION\|finding"; fi
done
if [ "${1:-}" = "thorough" ]; then
  # all thorough tiers in parallel (sensitivity witnesses must load, type-check and be caught)
  for i in 01 02 03 04 05 06 07 08 09 10 11 12 13 14 15 16 17 18 19 20; do
    ( bin/simdvet check C$i --tier thorough > /tmp/precommit.C$i.log 2>&1; echo $? > /tmp/precommit.C$i.rc ) &
  done; wait
  for i in 01 02 03 04 05 06 07 08 09 10 11 12 13 14 15 16 17 18 19 20; do
    grep -v '^  ' /tmp/precommit.C$i.log | tail -1
    if [ "$(cat /tmp/precommit.C$i.rc)" != "0" ]; then rc=1; grep -m3 -A1 "VIOLATION" /tmp/precommit.C$i.log | cut -c1-400; fi
    rm -f /tmp/precommit.C$i.log /tmp/precommit.C$i.rc
  done
fi
python3 scripts/gen_manifest.py || rc=1
exit $rc
