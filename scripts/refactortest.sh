#!/bin/bash
# false-alarm corpus: behaviour-preserving refactorings written by independent sub-agents (full offline test suite green
# with each). Every alarm printed here is a false alarm of the checker. usage: scripts/refactortest.sh [pattern]
export GOFLAGS=-mod=mod GOPROXY=off GOSUMDB=off GOTOOLCHAIN=local GOWORK=off
cd /verif
git -C /repo diff --quiet || { echo "/repo has local changes"; exit 2; }
pat="${1:-}"
tot=0; clean=0
for d in refactors/*${pat}*/; do
  id=$(basename $d)
  [ -f $d/patch.diff ] || continue
  if ! git -C /repo apply /verif/$d/patch.diff 2>/dev/null; then echo "$id: patch does not apply"; continue; fi
  tot=$((tot+1))
  out=""
  for i in 01 02 03 04 05 06 07 08 09 10 11 12 13 14 15 16 17 18 19 20; do
    r=$(bin/simdvet check C$i 2>&1 | grep -A1 VIOLATION | grep 'rule=' | sed 's/^ *rule=\([^ ]*\) construct=\([^ ]*\).*/\1:\2/' | sort -u | tr '\n' ' ')
    [ -n "$r" ] && out="$out C$i[$r]"
  done
  git -C /repo checkout -- . ; git -C /repo clean -fdq -- . 2>/dev/null
  if [ -z "$out" ]; then clean=$((clean+1)); echo "$id: silent"; else echo "$id: ALARM$out" | cut -c1-600; fi
done
echo "refactorings: $tot, silent: $clean"
