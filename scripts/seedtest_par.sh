#!/bin/bash
# parallel variant of seedtest.sh: N scratch worktrees of /repo under /tmp/st (removed at the end), one slice of the seeded
# changes each; the checker is pointed at the worktree with --repo and at a scratch evidence directory with --verif.
# usage: scripts/seedtest_par.sh [pattern] [N]
export GOFLAGS=-mod=mod GOPROXY=off GOSUMDB=off GOTOOLCHAIN=local GOWORK=off
cd /verif
pat="${1:-}"; N="${2:-8}"
ids=($(ls -d seeded/*${pat}*/ | xargs -n1 basename))
mkdir -p /tmp/st
for k in $(seq 0 $((N-1))); do
  rm -rf /tmp/st/w$k /tmp/st/v$k; git -C /repo worktree add -q --detach /tmp/st/w$k HEAD
  mkdir -p /tmp/st/v$k; cp /verif/known_findings.txt /verif/properties.jsonl /tmp/st/v$k/ 2>/dev/null
  (
    i=0
    for id in "${ids[@]}"; do
      if [ $((i % N)) -eq $k ]; then
        prop=${id%%-*}
        P=seeded/$id/patch.diff; [ -f seeded/$id/patch.rebased.diff ] && P=seeded/$id/patch.rebased.diff
        if git -C /tmp/st/w$k apply /verif/$P 2>/dev/null; then
          out=$(${SIMDVET:-bin/simdvet} check $prop --repo /tmp/st/w$k --verif /tmp/st/v$k 2>&1); rc=$?
          git -C /tmp/st/w$k checkout -q -- . ; git -C /tmp/st/w$k clean -fdq
          if [ $rc -eq 1 ]; then echo "$id: DETECTED $(echo "$out" | grep -m1 'rule=' | cut -c1-160)"; else echo "$id: MISSED (rc=$rc)"; fi
        else echo "$id: PATCH-DOES-NOT-APPLY"; fi
      fi
      i=$((i+1))
    done
  ) > /tmp/st/out$k.log 2>&1 &
done
wait
cat /tmp/st/out*.log | sort
echo "seeded: $(cat /tmp/st/out*.log | grep -c ': ') detected: $(cat /tmp/st/out*.log | grep -c ': DETECTED')"
for k in $(seq 0 $((N-1))); do git -C /repo worktree remove --force /tmp/st/w$k; done
rm -rf /tmp/st
