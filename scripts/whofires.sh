#!/bin/bash
# usage: scripts/whofires.sh <seed-id>...  — apply the seeded change in a scratch worktree and list, for all 20 packs, the rules that fire
export GOFLAGS=-mod=mod GOPROXY=off GOSUMDB=off GOTOOLCHAIN=local GOWORK=off
cd /verif
for id in "$@"; do
(
  W=/tmp/wf/$id; rm -rf $W $W.v; mkdir -p /tmp/wf $W.v; git -C /repo worktree add -q --detach $W HEAD
  cp known_findings.txt properties.jsonl $W.v/
  P=seeded/$id/patch.diff; [ -f seeded/$id/patch.rebased.diff ] && P=seeded/$id/patch.rebased.diff
  [ -f $P ] || P=refactors/$id/patch.diff
  git -C $W apply /verif/$P || echo "$id: patch does not apply"
  out=""
  for c in 01 02 03 04 05 06 07 08 09 10 11 12 13 14 15 16 17 18 19 20; do
    r=$(${SIMDVET:-bin/simdvet} check C$c --repo $W --verif $W.v 2>&1 | grep -A1 VIOLATION | grep 'rule=' | sed 's/^ *rule=\([^ ]*\) construct=\([^ ]*\).*/\1:\2/' | sort -u | tr '\n' ' ')
    [ -n "$r" ] && out="$out C$c[$r]"
  done
  echo "$id:$out" | cut -c1-1200
  git -C /repo worktree remove --force $W; rm -rf $W.v
) &
done; wait
