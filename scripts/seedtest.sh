#!/bin/bash
# usage: seedtest.sh [tier] [pattern]  — apply each seeded change to /repo, run the property's check, undo; report detected/missed.
TIER=${1:-quick}; PAT=${2:-}
cd /verif
git -C /repo diff --quiet || { echo "/repo has local changes, refusing"; exit 2; }
for d in /verif/seeded/*${PAT}*/; do
  id=$(basename $d); prop=${id%%-*}
  grep -q "\"$prop\"" <(bin/simdvet list | sed 's/ .*//;s/^/"/;s/$/"/') || { echo "$id: no check for $prop yet"; continue; }
  P=$d/patch.diff; [ -f $d/patch.rebased.diff ] && P=$d/patch.rebased.diff
  if ! git -C /repo apply --check $P 2>/dev/null; then echo "$id: PATCH-DOES-NOT-APPLY (needs patch.rebased.diff)"; continue; fi
  git -C /repo apply $P
  out=$(bin/simdvet check $prop --tier $TIER 2>&1); rc=$?
  git -C /repo reset -q --hard HEAD
  if [ $rc -eq 1 ]; then echo "$id: DETECTED $(echo "$out" | grep -m1 'rule=' | cut -c1-160)"; else echo "$id: MISSED (rc=$rc)"; fi
done
