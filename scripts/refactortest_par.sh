#!/bin/bash
# parallel variant of refactortest.sh: N scratch worktrees of /repo under /tmp/rt (removed at the end), one slice of the
# corpus each; the checker is pointed at the worktree with --repo and at a scratch evidence directory with --verif.
# usage: scripts/refactortest_par.sh [pattern] [N]
export GOFLAGS=-mod=mod GOPROXY=off GOSUMDB=off GOTOOLCHAIN=local GOWORK=off
cd /verif
pat="${1:-}"; N="${2:-7}"
ids=($(ls -d refactors/*${pat}*/ | xargs -n1 basename))
mkdir -p /tmp/rt
for k in $(seq 0 $((N-1))); do
  rm -rf /tmp/rt/w$k /tmp/rt/v$k; git -C /repo worktree add -q --detach /tmp/rt/w$k HEAD
  mkdir -p /tmp/rt/v$k; cp /verif/known_findings.txt /verif/properties.jsonl /tmp/rt/v$k/ 2>/dev/null
  (
    i=0
    for id in "${ids[@]}"; do
      if [ $((i % N)) -eq $k ] && [ -f refactors/$id/patch.diff ]; then
        if git -C /tmp/rt/w$k apply /verif/refactors/$id/patch.diff 2>/dev/null; then
          out=""
          for c in 01 02 03 04 05 06 07 08 09 10 11 12 13 14 15 16 17 18 19 20; do
            r=$(${SIMDVET:-bin/simdvet} check C$c --repo /tmp/rt/w$k --verif /tmp/rt/v$k 2>&1 | grep -A1 VIOLATION | grep 'rule=' | sed 's/^ *rule=\([^ ]*\) construct=\([^ ]*\).*/\1:\2/' | sort -u | tr '\n' ' ')
            [ -n "$r" ] && out="$out C$c[$r]"
          done
          git -C /tmp/rt/w$k checkout -q -- . ; git -C /tmp/rt/w$k clean -fdq
          if [ -z "$out" ]; then echo "$id: silent"; else echo "$id: ALARM$out" | cut -c1-500; fi
        else echo "$id: patch does not apply"; fi
      fi
      i=$((i+1))
    done
  ) > /tmp/rt/out$k.log 2>&1 &
done
wait
cat /tmp/rt/out*.log | sort
echo "refactorings: $(cat /tmp/rt/out*.log | grep -c ': ') silent: $(cat /tmp/rt/out*.log | grep -c ': silent')"
for k in $(seq 0 $((N-1))); do git -C /repo worktree remove --force /tmp/rt/w$k; done
rm -rf /tmp/rt
