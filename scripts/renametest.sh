#!/bin/bash
# False-alarm regression: rename a battery of local variables and parameters in /repo (behaviour unchanged), run all 20
# quick checks, restore. Every check must stay green. (Development aid; edits /repo's working tree temporarily.)
set -u
git -C /repo diff --quiet || { echo "/repo has local changes, refusing"; exit 2; }
cd /repo && python3 - <<'PY'
import re
def ren(f, pairs):
    s=open(f).read()
    for a,b in pairs:
        s=re.sub(r'\b%s\b'%a, b, s)
    open(f,'w').write(s)
ren('parsed_object.go',[('tmp','itx'),('onlyKeys','filter'),('startO','begin')])
ren('parsed_json.go',[('stack','frames'),('stackTmp','framesBuf'),('isOpenRoot','opening'),('esc','found'),('cp','cur2'),('elem','el')])
ren('parsed_serialize.go',[('nSkips','pending'),('tagsOff','tpos'),('valWr','vw'),('tagWr','tw'),('stringsErr','serr'),('msgErr','merr'),('sWG','swg'),('compressed','comp2'),('want','expect')])
ren('stage1_find_marks_amd64.go',[('stripped_index','carryIdx'),('indexTotal','total'),('processed','done64'),('paddedBuf','pad')])
ren('simdjson_amd64.go',[('parsed','out'),('parseErr','perr'),('result','resCh'),('queue','q')])
ren('parsed_array.go',[('lenEst','est'),('elem','el')])
PY
export GOFLAGS=-mod=mod GOPROXY=off GOSUMDB=off GOTOOLCHAIN=local GOWORK=off
(cd /repo && go build ./...) || { git -C /repo checkout -- .; echo "renamed tree does not build"; exit 2; }
rc=0
cd /verif
for i in 01 02 03 04 05 06 07 08 09 10 11 12 13 14 15 16 17 18 19 20; do
  out=$(bin/simdvet check C$i 2>&1) || { rc=1; echo "$out" | grep -m2 "rule="; }
done
git -C /repo checkout -- .
[ $rc -eq 0 ] && echo "rename battery: all 20 checks green"
exit $rc
