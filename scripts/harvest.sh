#!/bin/bash
# usage: harvest.sh <PROP> <k>   — confirm /tmp/wt/<PROP>/out/m<k> in a scratch worktree and store it under /verif/seeded/<PROP>-m<k>/
set -u
export GOFLAGS=-mod=mod GOPROXY=off GOSUMDB=off GOTOOLCHAIN=local
P=$1; K=$2; LBL=${3:-}
SRC=/tmp/wt/$P/out/m$K
[ -f $SRC/patch.diff ] || { echo "$P m$K: no patch"; exit 1; }
WT=/tmp/hv/$P-${LBL}m$K
rm -rf $WT; mkdir -p /tmp/hv
git -C /repo worktree add -q --detach $WT HEAD || exit 1
BASE='TestExcludeNewlineDelimitersWithinQuotes|TestFinalizeStructurals|TestFindNewlineDelimiters|TestFindOddBackslashSequences|TestFindQuoteMaskAndBits|TestFindStructuralBits|TestFindStructuralBitsLoop|TestFindStructuralBitsWhitespacePadding|TestFindWhitespaceAndStructurals|TestFlattenBitsIncremental|TestNdjsonCountWhere$'
cd $WT
cp $SRC/zz_demo_test.go .
T0=$(timeout 600 go test -vet=off -count=1 -run 'TestDemo$' . 2>&1 | tail -3)
PRISTINE=FAIL; echo "$T0" | grep -q '^ok' && PRISTINE=PASS
git apply $SRC/patch.diff || { echo "$P m$K: patch does not apply"; cd /; git -C /repo worktree remove --force $WT; exit 1; }
BUILD=FAIL; go build ./... >/dev/null 2>&1 && go vet . >/dev/null 2>&1 && BUILD=PASS
[ $BUILD = FAIL ] && go build ./... >/dev/null 2>&1 && BUILD=PASS-vetwarn
B=$(timeout 900 go test -vet=off -count=1 -run "$BASE" . 2>&1 | tail -3)
BASEL=FAIL; echo "$B" | grep -q '^ok' && BASEL=PASS
T1=$(timeout 900 go test -vet=off -count=1 -run 'TestDemo$' . 2>&1 | tail -15)
MUT=PASS; echo "$T1" | grep -q '^ok' || MUT=FAIL
echo "$P m$K: pristine-demo=$PRISTINE build=$BUILD baseline=$BASEL mutated-demo=$MUT"
if [ $PRISTINE = PASS ] && [ $BASEL = PASS ] && [ $MUT = FAIL ] && [ $BUILD != FAIL ]; then
  D=/verif/seeded/$P-${LBL}m$K; mkdir -p $D
  cp $SRC/patch.diff $SRC/zz_demo_test.go $D/
  cp $SRC/NOTES.md $D/NOTES.md 2>/dev/null
  python3 - "$P" "${LBL}$K" "$D" <<'PY'
import json,sys,re
P,K,D=sys.argv[1:4]
notes=open(D+'/NOTES.md').read() if True else ''
files=sorted(set(re.findall(r'^\+\+\+ b/(\S+)',open(D+'/patch.diff').read(),re.M)))
json.dump({"property":P,"id":P+"-m"+K,"files":files,
 "needs_to_manifest":"see NOTES.md (written by the independent sub-agent that produced the change)",
 "confirmed_by":"scripts/harvest.sh in a scratch worktree of /repo HEAD: demo PASS on pristine tree; with patch: go build ok, 30-test baseline list PASS, demo FAIL",
 "commands":["go test -vet=off -count=1 -run 'TestDemo$' .  (pristine: ok)","git apply patch.diff && go build ./...","go test -vet=off -count=1 -run '<baseline list>' .  (ok)","go test -vet=off -count=1 -run 'TestDemo$' .  (FAIL)"]},
 open(D+'/meta.json','w'),indent=1)
PY
fi
cd /; git -C /repo worktree remove --force $WT
