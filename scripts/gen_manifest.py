#!/usr/bin/env python3
"""Regenerate /verif/MANIFEST.json from the rule packs registered in the checker (bin/simdvet describe)."""
import json, subprocess
props = json.loads(subprocess.check_output(['/verif/bin/simdvet', 'describe']))
allids = [json.loads(l)['id'] for l in open('/verif/properties.jsonl')]
NA = json.load(open('/verif/scripts/not_applicable.json'))
checks = []
for pid in sorted(props):
    p = props[pid]
    rules = p['Quick'] + (p.get('Thorough') or [])
    checks.append({
        "property_id": pid,
        "quick_cmd": f"bin/simdvet check {pid} --tier quick",
        "thorough_cmd": f"bin/simdvet check {pid} --tier thorough",
        "evidence_file": f"/verif/evidence/{pid}.json",
        "replay_cmd_template": "cat {path}   # static finding: rule, construct, position, witness input; re-run the check to re-derive it",
        "engine": "simdvet",
        "level_claimed": {"category": "other",
            "text": "Static analysis: a structural necessary condition of the property is decided for all inputs/paths, the behavioural whole is not. Decided: " + p['Decides'] + " Not decided: " + "; ".join(p.get('NotDecided') or []) + ".",
            "design_ref": "DESIGN.md §3 " + pid},
        "level_note": "Trusted base: go/types + go/cfg (x/tools v0.29.0), the checker's own asm front end and expectation tables; " + "; ".join(p.get('Assumptions') or ["none beyond that"]),
        "technique": "static analysis: " + ", ".join(rules) + " (thorough adds in-memory sensitivity witnesses)",
    })
na = [{"property_id": i, "reason": NA.get(i, "rule pack not built yet in this commit (see DESIGN.md §3 for the planned static rules)")} for i in allids if i not in props]
m = {
 "version": 1,
 "setup_cmd": "cd /verif/tool && GOFLAGS=-mod=mod GOPROXY=off GOSUMDB=off GOTOOLCHAIN=local GOWORK=off go build -o /verif/bin/simdvet .",
 "hooks": {"guard": "verif", "enable": "none needed: the checks are static and read /repo's sources directly; no hook commits exist",
           "baseline_off_cmd": "cd /repo && GOFLAGS=-mod=mod go test -vet=off -count=1 -timeout 25m ./...", "source_commits": [], "add_only": True},
 "engines": [{"name": "simdvet", "path": "/verif/tool", "serves_properties": sorted(props), "kind_free_text": "repository-specific static analyser: go/packages+go/types+go/cfg front end, own Plan-9 asm front end, engines TAB/AUT/AFF(SYM)/CFGR/SIB/CONST (DESIGN.md §2)"}],
 "checks": checks,
 "notes": "Static analysis only; every check loads /repo's current working tree on every run. Known/fixed findings: /verif/known_findings.txt. Seeded changes used to test the checks: /verif/seeded/.",
 "not_applicable": na,
}
json.dump(m, open('/verif/MANIFEST.json', 'w'), indent=1)
print("checks:", len(checks), "not_applicable:", len(na))
