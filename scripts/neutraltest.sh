#!/bin/bash
# false-alarm battery: every behaviour-preserving transformation at every eligible site of the Go sources; all rules must stay silent
export GOFLAGS=-mod=mod GOPROXY=off GOSUMDB=off GOTOOLCHAIN=local GOWORK=off
cd /verif
FILES="parsed_array.go parsed_object.go parsed_json.go parsed_serialize.go simdjson_amd64.go parse_json_amd64.go stage1_find_marks_amd64.go stage2_build_tape_amd64.go parse_number.go parse_string_amd64.go find_subroutines_amd64.go options.go appendfloat_f.go"
set -o pipefail
rc=0
for k in swap-eq flip-rel flip-else incdec assign-op var-decl reorder errmsg nop-stmt add-else unelse nest-and merge-and; do
  bin/simdvet neutral $k $FILES | tail -1 || rc=1
done
exit $rc
